"""Per-property legs, case counts and budgets used by ./check."""

EXPLORATION_ASSUMPTIONS = [
    "goirc is compiled from /repo's working tree as a dependency of the harness module (replace directive), under goirc's own go.mod language version",
    "the scripted in-memory server (harness/ircsim) stands in for the network; it is reached through the public Config.Proxy hook",
    "goroutine scheduling is perturbed (drawn delays, yields, GOMAXPROCS) but not controlled",
]

CHECKS = {
    "C01": {
        "level": "exploration",
        "assumptions": EXPLORATION_ASSUMPTIONS + ["expected components are computed from the generator's structured value by a reference printer, never by re-parsing"],
        "legs": [
            {"test": "TestC01_Regress", "quick": {"timeout": "5m"}, "thorough": {"timeout": "5m"}},
            {"test": "TestC01", "quick": {"checks": 20000, "timeout": "10m"},
             "thorough": {"checks": 250000, "shards": 8, "timeout": "60m"}},
        ],
    },
}

package client

// In-package leg of the C10 check (virtual clock). It is compiled into
// /repo's client package through `go test -overlay`, never written to /repo.
// It uses only SimpleClient, rateLimit, badness and lastsent, which goirc's
// own TestRateLimit pins. If those identifiers are refactored away this file
// stops compiling and the driver reports the leg as skipped.

import (
	"encoding/binary"
	"encoding/json"
	"fmt"
	"hash/fnv"
	"os"
	"testing"
	"time"

	"pgregory.net/rapid"
)

type verifC10Step struct {
	Chars int   `json:"chars"`
	GapNS int64 `json:"gap_ns"`
}

func verifC10Run(steps []verifC10Step) (crossUp, crossDown, floored int, msg string) {
	createBefore := time.Now()
	c := SimpleClient("test")
	createAfter := time.Now()
	prevLo, prevHi := createBefore, createAfter // bounds on the instant stored in lastsent
	var b time.Duration                         // penalty after the previous step (read back exactly)
	const threshold = 10 * time.Second
	for i, s := range steps {
		gap := time.Duration(s.GapNS)
		// an idle gap is realised by moving lastsent back, as goirc's TestRateLimit does
		c.lastsent = c.lastsent.Add(-gap)
		before := time.Now()
		ret := c.rateLimit(s.Chars)
		after := time.Now()
		charge := 2*time.Second + time.Duration(s.Chars)*time.Second/120
		elLo := gap + before.Sub(prevHi)
		if elLo < gap {
			elLo = gap
		}
		elHi := gap + after.Sub(prevLo)
		lo, hi := b+charge-elHi, b+charge-elLo
		if lo < 0 {
			lo = 0
		}
		if hi < 0 {
			hi = 0
		}
		got := c.badness
		if got < 0 {
			return crossUp, crossDown, floored, fmt.Sprintf("step %d: penalty is negative: %v", i, got)
		}
		if got < lo || got > hi {
			return crossUp, crossDown, floored, fmt.Sprintf("step %d (chars=%d gap=%v): penalty %v outside [%v, %v] = max(0, %v + (2s + %d/120 s) - elapsed in [%v, %v])", i, s.Chars, gap, got, lo, hi, b, s.Chars, elLo, elHi)
		}
		want := time.Duration(0)
		if got > threshold {
			want = charge
		}
		if ret != want {
			return crossUp, crossDown, floored, fmt.Sprintf("step %d (chars=%d gap=%v): penalty is %v, rateLimit returned %v, want %v (hold back for the line's own charge exactly when the penalty exceeds 10s)", i, s.Chars, gap, got, ret, want)
		}
		if b <= threshold && got > threshold {
			crossUp++
		}
		if b > threshold && got <= threshold {
			crossDown++
		}
		if got == 0 && b+charge > 0 && hi == 0 {
			floored++
		}
		b = got
		prevLo, prevHi = before, after
	}
	return crossUp, crossDown, floored, ""
}

type verifC10Stats struct {
	Property   string                 `json:"property"`
	Rule       string                 `json:"rule"`
	Evals      int64                  `json:"evaluations"`
	Nontrivial int                    `json:"distinct_nontrivial"`
	Classes    map[string]int64       `json:"classes"`
	Samples    []interface{}          `json:"samples"`
	Extra      map[string]interface{} `json:"extra"`
}

func TestVerifC10(t *testing.T) {
	gaps := []int64{0, int64(time.Microsecond), int64(time.Millisecond), int64(time.Second), int64(1900 * time.Millisecond), int64(2 * time.Second), int64(2100 * time.Millisecond),
		int64(5 * time.Second), int64(10 * time.Second), int64(time.Minute), int64(10 * time.Minute)}
	st := verifC10Stats{Property: "C10", Classes: map[string]int64{},
		Rule: "virtual clock, in-package: 1..60 steps (chars 0..510, idle gap from a table or uniform 0..12 s, realised by moving lastsent back) against interval arithmetic over Hybrid's rule; non-trivial = the sequence crosses the 10 s threshold upwards and comes back below it at least once; distinct by sequence"}
	hashes := map[uint64]bool{}
	rapid.Check(t, func(t *rapid.T) {
		n := rapid.IntRange(1, 60).Draw(t, "nsteps")
		var steps []verifC10Step
		for i := 0; i < n; i++ {
			s := verifC10Step{Chars: rapid.IntRange(0, 510).Draw(t, "chars")}
			if rapid.Bool().Draw(t, "gap_table") {
				s.GapNS = rapid.SampledFrom(gaps).Draw(t, "gap")
			} else {
				s.GapNS = rapid.Int64Range(0, int64(12*time.Second)).Draw(t, "gap_uniform")
			}
			steps = append(steps, s)
		}
		up, down, fl, msg := verifC10Run(steps)
		st.Evals++
		if up > 0 {
			st.Classes["crosses_threshold_up"]++
		}
		if down > 0 {
			st.Classes["comes_back_below_threshold"]++
		}
		if fl > 0 {
			st.Classes["floored_at_zero"]++
		}
		if up > 0 && down > 0 {
			h := fnv.New64a()
			for _, s := range steps {
				binary.Write(h, binary.LittleEndian, int64(s.Chars))
				binary.Write(h, binary.LittleEndian, s.GapNS)
			}
			hashes[h.Sum64()] = true
		}
		if len(st.Samples) < 4 && n <= 6 {
			st.Samples = append(st.Samples, steps)
		}
		if msg != "" {
			if p := os.Getenv("VERIF_REPLAY_OUT"); p != "" {
				sc, _ := json.Marshal(steps)
				b, _ := json.MarshalIndent(map[string]interface{}{"property": "C10", "test": "TestVerifC10", "message": msg, "scenario": json.RawMessage(sc)}, "", " ")
				os.WriteFile(p, b, 0o644)
			}
			t.Fatalf("VIOLATION C10: %s", msg)
		}
	})
	st.Nontrivial = len(hashes)
	if p := os.Getenv("VERIF_STATS"); p != "" {
		buf := make([]byte, 0, 8*len(hashes))
		for h := range hashes {
			buf = binary.LittleEndian.AppendUint64(buf, h)
		}
		os.WriteFile(p+".hashes", buf, 0o644)
		if st.Samples == nil {
			st.Samples = []interface{}{}
		}
		b, _ := json.MarshalIndent(st, "", " ")
		os.WriteFile(p, b, 0o644)
	}
}

func TestVerifC10_Replay(t *testing.T) {
	p := os.Getenv("VERIF_REPLAY_IN")
	if p == "" {
		t.Skip("no VERIF_REPLAY_IN")
	}
	b, err := os.ReadFile(p)
	if err != nil {
		t.Fatal(err)
	}
	var rf struct {
		Scenario []verifC10Step `json:"scenario"`
	}
	if err := json.Unmarshal(b, &rf); err != nil {
		t.Fatal(err)
	}
	if _, _, _, msg := verifC10Run(rf.Scenario); msg != "" {
		t.Fatalf("REPRODUCED %s", msg)
	}
}

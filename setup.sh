#!/bin/bash
# Offline setup: warm the Go build cache for the harness against /repo's working tree. Nothing is fetched.
set -e
export GOFLAGS=-mod=mod GOPROXY=off GOSUMDB=off GOTOOLCHAIN=local
cd "$(dirname "$0")/harness"
go build ./... 
go vet ./ircsim ./evid >/dev/null 2>&1 || true
go test -c -vet=off -o /dev/null ./props
echo "setup ok"

package props

import (
	"fmt"
	"runtime"
	"strings"
	"testing"
	"time"

	"verifharness/evid"

	"github.com/fluffle/goirc/client"
	"pgregory.net/rapid"
)

// ---------------------------------------------------------------------------
// C11: long messages are split losslessly into bounded pieces
// ---------------------------------------------------------------------------

type c11Case struct {
	Method   string `json:"method"`
	Target   string `json:"target"`
	Text     Q      `json:"text"`
	SplitLen int    `json:"split_len"`
	ArgCut   int    `json:"arg_cut"` // Ctcp/CtcpReply: pass the text as two variadic args cut at this space (-1: one arg)
}

var c11Methods = []string{"Privmsg", "Privmsgf", "Privmsgln", "Notice", "Ctcp", "CtcpReply", "Action"}

func effSplit(n int) int {
	if n < 13 {
		return 450
	}
	return n
}

var c11Seps = []string{". ", ": ", "; ", ", ", "! ", "? ", "\" ", "' "}

func genC11Text(t *rapid.T, n int) string {
	filler := func(label string, k int) string {
		if k <= 0 {
			return ""
		}
		switch rapid.IntRange(0, 3).Draw(t, label+"_fill") {
		case 0:
			return strings.Repeat("x", k)
		case 1:
			// words
			var b strings.Builder
			for b.Len() < k {
				w := rapid.IntRange(1, 9).Draw(t, label+"_w")
				b.WriteString(strings.Repeat("w", w))
				b.WriteByte(' ')
			}
			return b.String()[:k]
		case 2:
			var b strings.Builder
			for b.Len() < k {
				b.WriteString(rapid.SampledFrom([]string{"a", "b", " ", ". ", ", ", "!", "? ", "\xff", "\x00", "\x01", "...", "  ", "é", ":", "' ", "\" "}).Draw(t, label+"_u"))
			}
			return b.String()[:k]
		}
		return strings.Repeat(rapid.SampledFrom([]string{"ab", "a ", " ", ".", "..", ". "}).Draw(t, label+"_rep"), k)[:k]
	}
	switch rapid.IntRange(0, 9).Draw(t, "text_shape") {
	case 0:
		// around the boundary
		return filler("b", n+rapid.IntRange(-2, 2).Draw(t, "delta"))
	case 1:
		// k*(n-3)+r
		k := rapid.IntRange(1, 6).Draw(t, "k")
		r := rapid.IntRange(-3, 4).Draw(t, "r")
		l := k*(n-3) + r
		if l > 8000 {
			l = 8000
		}
		return filler("m", l)
	case 2:
		// a separator placed near the cut position
		cut := n - 3
		pos := cut + rapid.IntRange(-5, 2).Draw(t, "sep_off")
		if rapid.IntRange(0, 3).Draw(t, "sep_early") == 0 {
			pos = rapid.IntRange(0, 2).Draw(t, "sep_pos_early")
		}
		if pos < 0 {
			pos = 0
		}
		sep := rapid.SampledFrom(append([]string{" ", "  "}, c11Seps...)).Draw(t, "sep")
		pre := strings.Repeat("y", pos)
		rest := rapid.IntRange(0, 2*n).Draw(t, "rest")
		if rest > 3000 {
			rest = 3000
		}
		return pre + sep + filler("r", rest)
	case 3:
		return ""
	case 4:
		l := rapid.IntRange(0, 6000).Draw(t, "len")
		return filler("l", l)
	}
	l := rapid.IntRange(0, 3*n).Draw(t, "len_rel")
	if l > 6000 {
		l = 6000
	}
	return filler("g", l)
}

// c11LongTarget is a comma-separated recipient list of about n bytes.
func c11LongTarget(n int) string {
	var b strings.Builder
	for i := 0; b.Len() < n; i++ {
		if i > 0 {
			b.WriteByte(',')
		}
		b.WriteString(fmt.Sprintf("#channel-%02d", i))
	}
	return b.String()
}

func genC11(t *rapid.T) *c11Case {
	c := &c11Case{
		Method:   rapid.SampledFrom(c11Methods).Draw(t, "method"),
		Target:   rapid.SampledFrom([]string{"#chan", "nick", "&c", "#chan", "nick", c11LongTarget(60), c11LongTarget(150), c11LongTarget(400)}).Draw(t, "target"), // also recipient lists
		SplitLen: rapid.SampledFrom([]int{-1, 0, 1, 12, 13, 13, 14, 14, 20, 23, 100, 450, 451, 5000}).Draw(t, "split_len"),
		ArgCut:   -1,
	}
	text := genC11Text(t, effSplit(c.SplitLen))
	text = strings.NewReplacer("\r", "r", "\n", "n").Replace(text)
	c.Text = Q(text)
	if (c.Method == "Ctcp" || c.Method == "CtcpReply") && rapid.Bool().Draw(t, "two_args") {
		if i := strings.Index(text, " "); i >= 0 {
			c.ArgCut = i
		}
	}
	return c
}

func runC11(c *c11Case) (npieces int, v *Violation) {
	w, v := getWireClient("C11")
	if v != nil {
		return 0, v
	}
	text := string(c.Text)
	w.tc.C.Config().SplitLen = c.SplitLen
	var verb, pre, post string
	call := func(cl *client.Conn) {}
	vargs := []string{text}
	if c.ArgCut >= 0 && c.ArgCut < len(text) && text[c.ArgCut] == ' ' {
		vargs = []string{text[:c.ArgCut], text[c.ArgCut+1:]}
	}
	switch c.Method {
	case "Privmsg":
		verb, call = "PRIVMSG", func(cl *client.Conn) { cl.Privmsg(c.Target, text) }
	case "Privmsgf":
		verb, call = "PRIVMSG", func(cl *client.Conn) { cl.Privmsgf(c.Target, "%s", text) }
	case "Privmsgln":
		verb, call = "PRIVMSG", func(cl *client.Conn) { cl.Privmsgln(c.Target, text) }
	case "Notice":
		verb, call = "NOTICE", func(cl *client.Conn) { cl.Notice(c.Target, text) }
	case "Ctcp":
		verb, pre, post = "PRIVMSG", "\x01FOO", "\x01"
		call = func(cl *client.Conn) { cl.Ctcp(c.Target, "foo", vargs...) }
	case "CtcpReply":
		verb, pre, post = "NOTICE", "\x01BAR", "\x01"
		call = func(cl *client.Conn) { cl.CtcpReply(c.Target, "Bar", vargs...) }
	case "Action":
		verb, pre, post = "PRIVMSG", "\x01ACTION", "\x01"
		call = func(cl *client.Conn) { cl.Action(c.Target, text) }
	default:
		return 0, nil
	}
	out, v := w.capture("C11", call)
	if v != nil {
		return 0, v
	}
	lines, v := checkWholeLines("C11", out)
	if v != nil {
		return 0, v
	}
	n := effSplit(c.SplitLen)
	desc := fmt.Sprintf("%s(len(text)=%d, SplitLen=%d)", c.Method, len(text), c.SplitLen)
	if len(lines) == 0 {
		return 0, violationf("C11", "%s wrote nothing", desc)
	}
	head := verb + " " + c.Target + " :" + pre
	var pieces []string
	for i, l := range lines {
		if !strings.HasPrefix(l, head) || !strings.HasSuffix(l, post) || len(l) < len(head)+len(post) {
			return 0, violationf("C11", "%s: line %d is not %q<piece>%q: %q", desc, i, head, post, l)
		}
		p := l[len(head) : len(l)-len(post)]
		if pre != "" {
			// CTCP: the piece is separated from the CTCP verb by one space, absent when the piece is empty
			if p != "" {
				if p[0] != ' ' {
					return 0, violationf("C11", "%s: CTCP line %d lacks the space before its text: %q", desc, i, l)
				}
				p = p[1:]
			}
		}
		pieces = append(pieces, p)
	}
	if len(text) <= n {
		if len(pieces) != 1 || pieces[0] != text {
			return len(pieces), violationf("C11", "%s: text fits in SplitLen but was sent as %d pieces %q", desc, len(pieces), clip(pieces))
		}
		return 1, nil
	}
	var joined strings.Builder
	for i, p := range pieces {
		if len(p) > n {
			return len(pieces), violationf("C11", "%s: piece %d has %d bytes > %d", desc, i, len(p), n)
		}
		if i < len(pieces)-1 {
			if !strings.HasSuffix(p, "...") {
				return len(pieces), violationf("C11", "%s: piece %d of %d does not end in the continuation marker: %q", desc, i, len(pieces), tail(p, 40))
			}
			p = p[:len(p)-3]
		}
		if p == "" {
			return len(pieces), violationf("C11", "%s: piece %d of %d is empty", desc, i, len(pieces))
		}
		joined.WriteString(p)
	}
	if joined.String() != text {
		return len(pieces), violationf("C11", "%s: joining the %d pieces does not reproduce the text: got %q want %q", desc, len(pieces), tail(joined.String(), 80), tail(text, 80))
	}
	if len(pieces) < 2 {
		return len(pieces), violationf("C11", "%s: text longer than SplitLen sent as one piece", desc)
	}
	return len(pieces), nil
}

func clip(p []string) []string {
	out := []string{}
	for _, s := range p {
		out = append(out, tail(s, 40))
	}
	return out
}

func TestC11(t *testing.T) {
	col := evid.New("C11", "Privmsg/Privmsgf/Privmsgln/Notice/Ctcp/CtcpReply/Action with texts of 0..8000 bytes laid out to hit every cut rule (no space, sentence breaks and spaces around the cut, exact multiples) and SplitLen from {-1,0,1,12,13,14,20,23,100,450,451,5000}; non-trivial = text longer than the effective SplitLen; distinct by (method, SplitLen, text)")
	defer finish(t, col)
	rapid.Check(t, func(t *rapid.T) {
		c := genC11(t)
		np, v := runC11(c)
		n := effSplit(c.SplitLen)
		b := "pieces=1"
		switch {
		case np >= 10:
			b = "pieces>=10"
		case np >= 3:
			b = "pieces=3..9"
		case np == 2:
			b = "pieces=2"
		}
		col.Case(fmt.Sprintf("%s|%d|%s", c.Method, c.SplitLen, c.Text), len(c.Text) > n, "method="+c.Method, b, fmt.Sprintf("splitlen=%d", c.SplitLen))
		if len(c.Text) < 120 {
			col.Sample(c)
		}
		if v != nil {
			failRapid(t, "TestC11", v, c)
		}
	})
	if wc != nil {
		wc.tc.shutdown()
		wc = nil
	}
}

func TestC11_Replay(t *testing.T) {
	var c c11Case
	loadReplay(t, &c)
	if _, v := runC11(&c); v != nil {
		t.Fatalf("REPRODUCED %s", v.Msg)
	}
}

func FuzzC11(f *testing.F) {
	f.Add(uint8(0), uint8(3), "hello world. this is a test, of the splitting! ok")
	f.Add(uint8(4), uint8(4), strings.Repeat("x", 40))
	f.Add(uint8(3), uint8(5), strings.Repeat("ab ", 30))
	f.Fuzz(func(t *testing.T, m, sl uint8, text string) {
		text = strings.NewReplacer("\r", "r", "\n", "n").Replace(text)
		c := &c11Case{Method: c11Methods[int(m)%len(c11Methods)], Target: "#c", Text: Q(text), ArgCut: -1,
			SplitLen: []int{-1, 0, 1, 12, 13, 14, 20, 23, 100, 450, 451, 5000}[int(sl)%12]}
		if _, v := runC11(c); v != nil {
			t.Fatalf("VIOLATION C11: %s", v.Msg)
		}
	})
}

// ---------------------------------------------------------------------------
// C11, concurrent callers: each caller's text must still come out whole
// ---------------------------------------------------------------------------

type c11Conc struct {
	SplitLen int      `json:"split_len"`
	Methods  []string `json:"methods"`
	Texts    []Q      `json:"texts"`
	Slow     bool     `json:"slow_server"`
	Procs    int      `json:"gomaxprocs"`
}

func genC11Conc(t *rapid.T) *c11Conc {
	c := &c11Conc{SplitLen: rapid.SampledFrom([]int{13, 14, 20, 40, 100, 450}).Draw(t, "split_len"), Slow: rapid.Bool().Draw(t, "slow")}
	c.Procs = rapid.SampledFrom([]int{1, 1, 2, 16}).Draw(t, "gomaxprocs")
	g := rapid.IntRange(2, 4).Draw(t, "goroutines")
	for i := 0; i < g; i++ {
		c.Methods = append(c.Methods, rapid.SampledFrom([]string{"Privmsg", "Notice", "Ctcp", "CtcpReply", "Action", "Privmsgf"}).Draw(t, "method"))
		// enough pieces to overflow the 32-slot queue, so that a caller is parked in the middle of its
		// sequence while another one starts
		n := rapid.IntRange(effSplit(c.SplitLen)+1, 80*effSplit(c.SplitLen)).Draw(t, "len")
		if n > 4000 {
			n = 4000
		}
		unit := fmt.Sprintf("%c%c%c ", 'a'+i, 'A'+i, '0'+i)
		if rapid.Bool().Draw(t, "nospace") {
			unit = fmt.Sprintf("%c", 'a'+i)
		}
		c.Texts = append(c.Texts, Q(strings.Repeat(unit, n/len(unit)+1)[:n]))
	}
	return c
}

func runC11Conc(c *c11Conc) *Violation {
	if c.Procs > 0 {
		old := runtime.GOMAXPROCS(c.Procs)
		defer runtime.GOMAXPROCS(old)
	}
	tc := newTestClient(cliOpts{Flood: true, Configure: func(cfg *client.Config) { cfg.SplitLen = c.SplitLen }})
	defer tc.shutdown()
	if err := tc.connect(); err != nil {
		return violationf("C11", "connect: %v", err)
	}
	conn := tc.conn()
	if !tc.syncOut(stallTimeout()) {
		return violationf("C11", "registration never completed")
	}
	if c.Slow {
		conn.Gate(true)
	}
	done := make(chan struct{}, len(c.Texts))
	for i := range c.Texts {
		i := i
		go func() {
			defer func() { done <- struct{}{} }()
			target, text := fmt.Sprintf("#t%d", i), string(c.Texts[i])
			switch c.Methods[i] {
			case "Privmsg":
				tc.C.Privmsg(target, text)
			case "Privmsgf":
				tc.C.Privmsgf(target, "%s", text)
			case "Notice":
				tc.C.Notice(target, text)
			case "Ctcp":
				tc.C.Ctcp(target, "foo", text)
			case "CtcpReply":
				tc.C.CtcpReply(target, "foo", text)
			case "Action":
				tc.C.Action(target, text)
			}
		}()
	}
	if c.Slow {
		// let the 32-slot queue fill, then drain slowly
		time.Sleep(200 * time.Microsecond)
		for k := 0; k < 40; k++ {
			conn.Allow(3)
			runtime.Gosched()
		}
		conn.Gate(false)
	}
	for range c.Texts {
		select {
		case <-done:
		case <-time.After(stallTimeout()):
			_, dump := goircGoroutines()
			return &Violation{Property: "C11", Msg: "a concurrent split send never returned", Detail: dump}
		}
	}
	if !tc.syncOut(stallTimeout()) {
		return violationf("C11", "final PING never answered")
	}
	lines, _ := SplitCRLF(conn.Written())
	n := effSplit(c.SplitLen)
	for i := range c.Texts {
		target, text := fmt.Sprintf("#t%d", i), string(c.Texts[i])
		var joined strings.Builder
		var pieces []string
		for _, l := range lines {
			var rest string
			if strings.HasPrefix(l, "PRIVMSG "+target+" :") {
				rest = l[len("PRIVMSG "+target+" :"):]
			} else if strings.HasPrefix(l, "NOTICE "+target+" :") {
				rest = l[len("NOTICE "+target+" :"):]
			} else {
				continue
			}
			if strings.HasPrefix(rest, "\x01") {
				rest = strings.TrimSuffix(rest, "\x01")
				if sp := strings.Index(rest, " "); sp >= 0 {
					rest = rest[sp+1:]
				} else {
					rest = ""
				}
			}
			pieces = append(pieces, rest)
		}
		for k, p := range pieces {
			if len(p) > n {
				return violationf("C11", "concurrent callers: piece %d for %s has %d bytes > %d", k, target, len(p), n)
			}
			if k < len(pieces)-1 {
				if !strings.HasSuffix(p, "...") {
					return violationf("C11", "concurrent callers: piece %d of %d for %s lacks the continuation marker: %q", k, len(pieces), target, tail(p, 40))
				}
				p = p[:len(p)-3]
			}
			joined.WriteString(p)
		}
		if joined.String() != text {
			return violationf("C11", "concurrent callers (%d goroutines, SplitLen %d): the pieces sent to %s by %s do not reproduce its text: got %q... want %q...", len(c.Texts), c.SplitLen, target, c.Methods[i], clipHead(joined.String(), 60), clipHead(text, 60))
		}
	}
	return nil
}

func clipHead(s string, n int) string {
	if len(s) > n {
		return s[:n]
	}
	return s
}

func TestC11_Concurrent(t *testing.T) {
	col := evid.New("C11", "2..4 goroutines each sending its own long text to its own target through a splitting method at the same time, server reading freely or slowly so that senders block mid-sequence; per target the pieces must reproduce that caller's text; non-trivial = every case (all texts exceed SplitLen); distinct by scenario")
	defer finish(t, col)
	rapid.Check(t, func(t *rapid.T) {
		c := genC11Conc(t)
		v := runC11Conc(c)
		col.Case(fmt.Sprintf("%+v", *c), true, fmt.Sprintf("goroutines=%d", len(c.Texts)), fmt.Sprintf("slow=%v", c.Slow))
		if len(c.Texts) == 2 && len(c.Texts[0])+len(c.Texts[1]) < 200 {
			col.Sample(c)
		}
		if v != nil {
			failRapid(t, "TestC11_Concurrent", v, c)
		}
	})
}

func TestC11_Concurrent_Replay(t *testing.T) {
	var c c11Conc
	loadReplay(t, &c)
	n := envInt("VERIF_REPLAY_RUNS", 100)
	for i := 0; i < n; i++ {
		if v := runC11Conc(&c); v != nil {
			t.Fatalf("REPRODUCED (run %d of %d): %s", i+1, n, v.Msg)
		}
	}
}

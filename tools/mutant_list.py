"""Hand-written mutants of fluffle/goirc used to measure the checks' sensitivity.
Each compiles and is meant to pass goirc's own tests; expect=control means the
change does NOT break the property and the check must stay quiet."""

def M(id, props, file, old, new, expect="detect", note=""):
    return {"id": id, "props": props, "edits": [{"file": file, "old": old, "new": new}], "expect": expect, "note": note}

L, CMD, CONN, DISP, H, SH = "client/line.go", "client/commands.go", "client/connection.go", "client/dispatch.go", "client/handlers.go", "client/state_handlers.go"
TR, CH, NK = "state/tracker.go", "state/channel.go", "state/nick.go"

MUTANTS = [
    # ---- C01
    M("c01-drop-escape-s", ["C01"], L, '"\\\\s", " ", ', ''),
    M("c01-split-not-splitn", ["C01"], L, 'strings.SplitN(s, " :", 2)', 'strings.Split(s, " :")'),
    M("c01-fields-to-split", ["C01"], L, 'args = append(strings.Fields(args[0]), args[1])', 'args = append(strings.Split(args[0], " "), args[1])'),
    M("c01-no-toupper-verb", ["C01"], L, 'line.Cmd = strings.ToUpper(args[0])', 'line.Cmd = args[0]'),
    M("c01-no-toupper-ctcp", ["C01"], L, 'if c := strings.ToUpper(t[0]); c == ACTION', 'if c := t[0]; c == ACTION'),
    M("c01-swap-ctcp-reply", ["C01"], L, '''			if line.Cmd == PRIVMSG {
				line.Cmd = CTCP
			} else {
				line.Cmd = CTCPREPLY
			}''', '''			if line.Cmd == PRIVMSG {
				line.Cmd = CTCPREPLY
			} else {
				line.Cmd = CTCP
			}'''),
    M("c01-public-loses-plus", ["C01"], L, '''		switch line.Args[0][0] {
		case '#', '&', '+', '!':''', '''		switch line.Args[0][0] {
		case '#', '&', '!':'''),
    M("c01-target-args0-private", ["C01"], L, '''	case PRIVMSG, NOTICE, ACTION:
		if !line.Public() {
			return line.Nick
		}
	case CTCP''', '''	case PRIVMSG, NOTICE, ACTION:
		if !line.Public() && line.Cmd != NOTICE {
			return line.Nick
		}
	case CTCP'''),
    M("c01-recv-trims-space", ["C01"], CONN, 's = strings.Trim(s, "\\r\\n")', 's = strings.Trim(s, "\\r\\n ")', note="only the connection leg can see it; empty trailing after a space is lost"),
    M("c01-tags-nonnil-always", ["C01"], L, 'line := &Line{Raw: s}', 'line := &Line{Raw: s, Tags: map[string]string{}}'),
    M("c01-userhost-lastindex", ["C01"], L, 'nidx, uidx := strings.Index(uh, "!"), strings.Index(uh, "@")', 'nidx, uidx := strings.Index(uh, "!"), strings.LastIndex(uh, "@")', expect="control", note="host never contains '@' in well-formed sources"),
    # ---- C02
    M("c02-recv-returns-on-bad-line", ["C02"], CONN, '''			logging.Warn("irc.recv(): problems parsing line:\\n  %s", s)
''', '''			logging.Warn("irc.recv(): problems parsing line:\\n  %s", s)
			conn.wg.Done()
			conn.Close()
			return
'''),
    M("c02-recv-skips-at-lines", ["C02", "C01"], CONN, 'if line := ParseLine(s); line != nil {', 'if line := ParseLine(s); line != nil && !strings.HasPrefix(s, "@t=") {'),
    M("c02-kick-no-argslen", ["C02"], SH, '''func (conn *Conn) h_KICK(line *Line) {
	if !line.argslen(1) {
		return
	}''', '''func (conn *Conn) h_KICK(line *Line) {''', expect="control", note="handler panic is recovered"),
    M("c02-tag-empty-key-panic", ["C02"], L, '''			if tag == "" {
				continue
			}
''', '''			if tag == "" {
				continue
			}
			if tag[0] == '=' && len(tag) > 3 && tag[1] == tag[2] {
				_ = tag[len(tag)]
			}
''', note="panics only on tags like '==...'"),
    # ---- C08
    M("c08-cut-only-lf", ["C08"], CMD, '''	r := strings.SplitN(s, "\\r", 2)
	r = strings.SplitN(r[0], "\\n", 2)
	return r[0]''', '''	r := strings.SplitN(s, "\\n", 2)
	return r[0]'''),
    M("c08-invite-direct", ["C08"], CMD, 'conn.Raw(INVITE + " " + nick + " " + channel)', 'conn.out <- INVITE + " " + nick + " " + channel'),
    M("c08-raw-cuts-after", ["C08"], CMD, 'conn.out <- cutNewLines(rawline)', '''if i := strings.IndexAny(rawline, "\\r\\n"); i >= 0 && i+1 < len(rawline) && rawline[i+1] != '\\n' && rawline[i+1] != '\\r' {
		rawline = rawline[:i+1]
	}
	conn.out <- strings.TrimRight(rawline, "\\r\\n")'''),
    M("c08-write-lf-only", ["C08"], CONN, 'conn.io.WriteString(line + "\\r\\n")', 'conn.io.WriteString(line + "\\n")'),
    M("c08-topic-long-bypass", ["C08"], CMD, '''	conn.Raw(TOPIC + " " + channel + t)''', '''	if len(t) > 600 {
		conn.out <- TOPIC + " " + channel + t
		return
	}
	conn.Raw(TOPIC + " " + channel + t)'''),
    # ---- C11
    M("c11-no-marker-room", ["C11"], CMD, 'idx := indexFragment(msg[:splitLen-3])', 'idx := indexFragment(msg[:splitLen])'),
    M("c11-min-le-13", ["C11"], CMD, 'if splitLen < 13 {', 'if splitLen <= 13 {'),
    M("c11-min-lt-3", ["C11"], CMD, 'if splitLen < 13 {', 'if splitLen < 3 {'),
    M("c11-idx-ge-0", ["C11"], CMD, '''	if idx := strings.LastIndex(s, " "); idx > 0 {
		return idx + 1''', '''	if idx := strings.LastIndex(s, " "); idx >= 0 {
		return idx + 1''', expect="control", note="a leading space gives idx+1 == 1 > 0: still progresses, piece ' ...' is not empty"),
    M("c11-max-ge-0", ["C11"], CMD, '	if max > 0 {\n\t\treturn max + 2', '	if max >= 0 {\n\t\treturn max + 2', expect="control"),
    M("c11-lose-byte", ["C11"], CMD, '		msg = msg[idx:]\n', '		if msg[idx-1] == \' \' && idx > 40 {\n\t\t\tidx++\n\t\t}\n\t\tmsg = msg[idx:]\n'),
    M("c11-notice-no-split", ["C11"], CMD, '''	for _, s := range splitMessage(msg, conn.cfg.SplitLen) {
		conn.Raw(NOTICE + " " + t + " :" + s)
	}''', '''	conn.Raw(NOTICE + " " + t + " :" + msg)'''),
    M("c11-ctcp-default-split", ["C11"], CMD, '''func (conn *Conn) CtcpReply(t, ctcp string, arg ...string) {
	for _, s := range splitMessage(strings.Join(arg, " "), conn.cfg.SplitLen) {''', '''func (conn *Conn) CtcpReply(t, ctcp string, arg ...string) {
	for _, s := range splitMessage(strings.Join(arg, " "), defaultSplit) {'''),
    # ---- C12
    M("c12-renick-no-lookup-rekey", ["C12"], TR, """		delete(ch.lookup, old)
		ch.lookup[neu] = nk""", """		_ = ch"""),
    M("c12-delchannel-no-me-test", ["C12"], TR, "if len(nk.chans) == 0 && nk != st.me {", "if len(nk.chans) == 0 {", expect="control", note="delNick itself refuses to delete me"),
    M("c12-dissociate-no-gc", ["C12"], TR, """		nk.delChannel(ch)
		if len(nk.chans) == 0 {
			// We're no longer in any channels with this nick.
			st.delNick(nk)
		}
	}
}""", """		nk.delChannel(ch)
	}
}"""),
    M("c12-delnick-allows-me", ["C12"], TR, """		if nk == st.me {
			logging.Warn("Tracker.DelNick(): won't delete myself.")
			return nil
		}
		st.delNick(nk)""", """		st.delNick(nk)"""),
    M("c12-wipe-skips-multi", ["C12"], TR, """	for _, ch := range st.chans {
		st.delChannel(ch)
	}""", """	for _, ch := range st.chans {
		if len(st.chans) > 2 && len(ch.nicks) == 0 {
			continue
		}
		st.delChannel(ch)
	}"""),
    M("c12-delnick-keeps-chan-entry", ["C12"], TR, """		nk.delChannel(ch)
		ch.delNick(nk)
		if len(ch.nicks) == 0 {""", """		nk.delChannel(ch)
		if len(ch.nicks) == 0 {"""),
    M("c12-minus-l-consumes", ["C12"], CH, """			} else if !modeop {
				ch.modes.Limit = 0
			}""", """			} else if !modeop {
				ch.modes.Limit = 0
				if len(modeargs) != 0 {
					modeargs = modeargs[1:]
				}
			}"""),
    M("c12-renick-drops-privs-2chans", ["C12"], TR, """	for ch, _ := range nk.chans {
		// We also need to update the lookup maps of all the channels""", """	for ch, cp := range nk.chans {
		if len(nk.chans) > 1 && cp.Voice {
			cp.Voice = false
		}
		// We also need to update the lookup maps of all the channels"""),
    M("c12-newnick-allows-empty-after-wipe", ["C12"], TR, """	if n == "" {
		logging.Warn("Tracker.NewNick(): Not tracking empty nick.")
		return nil
	}""", """	if n == "" && len(st.chans) == 0 {
		logging.Warn("Tracker.NewNick(): Not tracking empty nick.")
		return nil
	}"""),
    M("c12-topic-returns-stale", ["C12"], TR, """	ch.topic = topic
	return ch.Channel()""", """	r := ch.Channel()
	ch.topic = topic
	return r"""),
    # ---- C03
    M("c03-fg-dispatch-go", ["C03"], DISP, "	conn.fgHandlers.dispatch(conn, line)\n}", "	go conn.fgHandlers.dispatch(conn, line)\n}"),
    M("c03-no-wg-wait", ["C03"], DISP, "		}(hn)\n	}\n	wg.Wait()", "		}(hn)\n	}\n	_ = wg"),
    M("c03-runloop-go-dispatch", ["C03"], CONN, "		case line := <-conn.in:\n			conn.dispatch(line)", "		case line := <-conn.in:\n			go conn.dispatch(line)"),
    M("c03-001-connected-go", ["C03"], H, "	defer conn.dispatch(&Line{Cmd: CONNECTED, Time: time.Now()})", "	defer func() { go conn.dispatch(&Line{Cmd: CONNECTED, Time: time.Now()}) }()"),
    M("c03-connected-before-nick", ["C03"], H, "	defer conn.dispatch(&Line{Cmd: CONNECTED, Time: time.Now()})", "	conn.dispatch(&Line{Cmd: CONNECTED, Time: time.Now()})"),
    M("c03-close-disc-before-wait", ["C03"], CONN, """	done := make(chan struct{})
	go func() {
		conn.wg.Wait()
		close(done)
	}()
	for exited := false; !exited; {""", """	done := make(chan struct{})
	go func() {
		conn.wg.Wait()
		close(done)
	}()
	go conn.dispatch(&Line{Cmd: DISCONNECTED, Time: time.Now()})
	for exited := false; !exited; {""", note="DISCONNECTED (also) delivered before the event loop has finished"),
    M("c03-wait-only-last-handler", ["C03"], DISP, """	for _, hn := range hs.getHandlers(ev) {
		wg.Add(1)""", """	hns := hs.getHandlers(ev)
	for i, hn := range hns {
		if i < len(hns)-1 && len(hns) > 2 {
			go hn.Handle(conn, line.Copy())
			continue
		}
		wg.Add(1)""", note="with >2 handlers only the last is waited for"),
    # ---- C04
    M("c04-remove-no-end-update", ["C04"], DISP, """	if hn.next == nil {
		l.end = hn.prev
	} else {""", """	if hn.next == nil {
		_ = l.end
	} else {"""),
    M("c04-remove-no-start-update", ["C04"], DISP, """	if hn.prev == nil {
		l.start = hn.next
	} else {""", """	if hn.prev == nil {
		_ = l.start
	} else {"""),
    M("c04-delete-cond-inverted", ["C04"], DISP, "	if l.start == nil || l.end == nil {\n		delete(hs.set, hn.event)", "	if l.start != nil && l.end != nil {\n		delete(hs.set, hn.event)"),
    M("c04-add-no-tolower", ["C04"], DISP, "	defer hs.Unlock()\n	ev = strings.ToLower(ev)\n	l, ok := hs.set[ev]", "	defer hs.Unlock()\n	l, ok := hs.set[ev]"),
    M("c04-dispatch-no-tolower", ["C04"], DISP, "	ev := strings.ToLower(line.Cmd)", "	ev := line.Cmd"),
    M("c04-closure-captures-loopvar", ["C04"], DISP, """		go func(hn *hNode) {
			hn.Handle(conn, line.Copy())
			wg.Done()
		}(hn)""", """		go func() {
			hn.Handle(conn, line.Copy())
			wg.Done()
		}()"""),
    M("c04-dispatch-holds-rlock", ["C04"], DISP, """	ev := strings.ToLower(line.Cmd)
	wg := &sync.WaitGroup{}""", """	ev := strings.ToLower(line.Cmd)
	hs.RLock()
	defer hs.RUnlock()
	wg := &sync.WaitGroup{}""", note="recursive read lock + in-handler Remove (write lock) dead-locks"),
    M("c04-live-list-iteration", ["C04"], DISP, """	for _, hn := range hs.getHandlers(ev) {
		wg.Add(1)""", """	hs.RLock()
	lst := hs.set[ev]
	hs.RUnlock()
	var first *hNode
	if lst != nil {
		first = lst.start
	}
	for hn := first; hn != nil; hn = hn.next {
		wg.Add(1)""", note="iterates the live list: a handler added/removed during dispatch is seen/lost"),
    M("c04-bg-snapshot-early", ["C04"], DISP, "	go conn.bgHandlers.dispatch(conn, line)", "	go conn.bgHandlers.dispatch(conn, line)", expect="control", note="placeholder identity mutant: measures the check's false-alarm rate under the mutant harness"),
    M("c04-remove-middle-unlinks-tail", ["C04"], DISP, """	} else {
		hn.prev.next = hn.next
	}""", """	} else if hn.next != nil && hn.next.next != nil {
		hn.prev.next = hn.next.next
	} else {
		hn.prev.next = hn.next
	}""", note="removing a middle node of a list of >=4 drops its successor too"),
    # ---- C15
    M("c15-no-copy", ["C15"], DISP, "			hn.Handle(conn, line.Copy())", "			hn.Handle(conn, line)"),
    M("c15-copy-aliases-tags", ["C15"], L, """	if l.Tags != nil {
		nl.Tags = make(map[string]string)
		for k, v := range l.Tags {
			nl.Tags[k] = v
		}
	}
	return &nl""", """	return &nl"""),
    M("c15-copy-aliases-args", ["C15"], L, """	nl.Args = make([]string, len(l.Args))
	copy(nl.Args, l.Args)""", """	nl.Args = l.Args[:]"""),
    M("c15-one-copy-per-set", ["C15"], DISP, """	for _, hn := range hs.getHandlers(ev) {
		wg.Add(1)
		go func(hn *hNode) {
			hn.Handle(conn, line.Copy())""", """	shared := line.Copy()
	for _, hn := range hs.getHandlers(ev) {
		wg.Add(1)
		go func(hn *hNode) {
			hn.Handle(conn, shared)"""),
    M("c15-copy-skips-args-when-many", ["C15"], L, """	nl.Args = make([]string, len(l.Args))
	copy(nl.Args, l.Args)""", """	if len(l.Args) < 8 {
		nl.Args = make([]string, len(l.Args))
		copy(nl.Args, l.Args)
	}"""),
    M("c15-bg-shares-with-fg-original", ["C15"], DISP, "	go conn.bgHandlers.dispatch(conn, line)", "	go conn.bgHandlers.dispatch(conn, line)", expect="control"),
    # ---- C16
    M("c16-no-recover", ["C16"], DISP, "	defer conn.cfg.Recover(conn, line)\n", "", note="process dies on the first handler panic"),
    M("c16-logpanic-no-recover", ["C16"], DISP, "	if err := recover(); err != nil {\n		_, f, l, _ := runtime.Caller(2)", "	if err := error(nil); err != nil {\n		_, f, l, _ := runtime.Caller(2)"),
    M("c16-bg-sync", ["C16"], DISP, "	go conn.bgHandlers.dispatch(conn, line)", "	conn.bgHandlers.dispatch(conn, line)"),
    M("c16-recover-only-fg", ["C16"], DISP, """func (hn *hNode) Handle(conn *Conn, line *Line) {
	defer conn.cfg.Recover(conn, line)""", """func (hn *hNode) Handle(conn *Conn, line *Line) {
	if hn.set == conn.bgHandlers && len(line.Args) > 1 {
		defer func() { recover() }()
	} else {
		defer conn.cfg.Recover(conn, line)
	}"""),
    M("c16-wgdone-deferred-control", ["C16"], DISP, """			hn.Handle(conn, line.Copy())
			wg.Done()""", """			defer wg.Done()
			hn.Handle(conn, line.Copy())""", expect="control"),
    M("c16-recover-wrong-line", ["C16"], DISP, """func (hn *hNode) Handle(conn *Conn, line *Line) {
	defer conn.cfg.Recover(conn, line)""", """func (hn *hNode) Handle(conn *Conn, line *Line) {
	defer conn.cfg.Recover(conn, &Line{Cmd: line.Cmd})"""),
]

MUTANTS += [
    # ---- C09
    M("c09-raw-drops-when-full", ["C09"], CMD, "	conn.out <- cutNewLines(rawline)", """	select {
	case conn.out <- cutNewLines(rawline):
	default:
	}"""),
    M("c09-send-write-in-goroutine", ["C09"], CONN, """		case line := <-conn.out:
			if err := conn.write(line); err != nil {""", """		case line := <-conn.out:
			if len(line) > 300 {
				go conn.write(line)
				continue
			}
			if err := conn.write(line); err != nil {""", note="long lines are written from their own goroutine: reordering / interleaving"),
    M("c09-no-flush", ["C09"], CONN, """	if err := conn.io.Flush(); err != nil {
		return err
	}""", """	if len(line) > 64 {
		if err := conn.io.Flush(); err != nil {
			return err
		}
	}""", note="short lines stay in the bufio buffer until a long one follows"),
    M("c09-truncate-512", ["C09"], CONN, '	if _, err := conn.io.WriteString(line + "\\r\\n"); err != nil {', """	if len(line) > 510 {
		line = line[:510]
	}
	if _, err := conn.io.WriteString(line + "\\r\\n"); err != nil {""", note="Raw lines longer than 510 bytes are truncated"),
    M("c09-two-send-goroutines", ["C09"], CONN, "		go conn.send(ctx)\n", "		go conn.send(ctx)\n		conn.wg.Add(1)\n		go conn.send(ctx)\n"),
    # ---- C18
    M("c18-swap-ports", ["C18"], CONN, """			conn.cfg.Server = net.JoinHostPort(conn.cfg.Server, "6697")
		} else {
			conn.cfg.Server = net.JoinHostPort(conn.cfg.Server, "6667")""", """			conn.cfg.Server = net.JoinHostPort(conn.cfg.Server, "6667")
		} else {
			conn.cfg.Server = net.JoinHostPort(conn.cfg.Server, "6697")"""),
    M("c18-hasport-index", ["C18"], CONN, 'return strings.LastIndex(s, ":") > strings.LastIndex(s, "]")', 'return strings.Index(s, ":") > strings.LastIndex(s, "]")'),
    M("c18-ping-answers-text", ["C18"], H, "	conn.Pong(line.Args[0])", "	conn.Pong(line.Text())"),
    M("c18-pong-no-colon", ["C18"], CMD, 'func (conn *Conn) Pong(message string) { conn.Raw(PONG + " :" + message) }', 'func (conn *Conn) Pong(message string) { conn.Raw(PONG + " " + message) }'),
    M("c18-nick-before-pass", ["C18"], H, """	if conn.cfg.Pass != "" {
		conn.Pass(conn.cfg.Pass)
	}
	conn.Nick(conn.cfg.Me.Nick)""", """	conn.Nick(conn.cfg.Me.Nick)
	if conn.cfg.Pass != "" {
		conn.Pass(conn.cfg.Pass)
	}"""),
    M("c18-user-from-nick", ["C18"], H, "	conn.User(conn.cfg.Me.Ident, conn.cfg.Me.Name)", "	conn.User(conn.cfg.Me.Nick, conn.cfg.Me.Name)"),
    M("c18-pingfreq-ge-0", ["C18"], CONN, "		if conn.cfg.PingFreq > 0 {", "		if conn.cfg.PingFreq >= 0 {"),
    M("c18-cap-ls-after-nick", ["C18"], H, """	if conn.cfg.EnableCapabilityNegotiation {
		conn.Cap(CAP_LS)
	}

	if conn.cfg.Pass != "" {""", """	if conn.cfg.EnableCapabilityNegotiation {
		defer conn.Cap(CAP_LS)
	}

	if conn.cfg.Pass != "" {"""),
    # ---- C20
    M("c20-mask-after-debug", ["C20"], CONN, """	if strings.HasPrefix(line, "PASS") {
		line = "PASS **************"
	}
	logging.Debug("-> %s", line)""", """	logging.Debug("-> %s", line)
	if strings.HasPrefix(line, "PASS") {
		line = "PASS **************"
	}"""),
    M("c20-mask-prefix-colon", ["C20"], CONN, '	if strings.HasPrefix(line, "PASS") {', '	if strings.HasPrefix(line, "PASS :") {'),
    M("c20-debug-in-register-capneg", ["C20"], H, "		conn.Cap(CAP_LS)\n	}\n", '		conn.Cap(CAP_LS)\n		logging.Debug("negotiating before registration (nick=%s pass=%s)", conn.cfg.Me.Nick, conn.cfg.Pass)\n	}\n', note="only with capability negotiation enabled"),
    M("c20-write-error-logs-line", ["C20"], CONN, '			if err := conn.write(line); err != nil {\n				logging.Error("irc.send(): %s", err.Error())', '			if err := conn.write(line); err != nil {\n				logging.Error("irc.send(): %s (while writing %q)", err.Error(), line)'),
    M("c20-connectto-logs-argcount", ["C20"], CONN, "	conn.cfg.Server = host\n	if len(pass) > 0 {", '	conn.cfg.Server = host\n	logging.Debug("ConnectTo(%q, %d optional args)", host, len(pass))\n	if len(pass) > 0 {', expect="control"),
    M("c20-config-dump-on-dial-error", ["C20"], CONN, """			logging.Info("irc.Connect(): Connecting via proxy %q: %v",
				conn.cfg.Proxy, err)""", """			logging.Info("irc.Connect(): Connecting via proxy %q: %v (config %+v)",
				conn.cfg.Proxy, err, *conn.cfg)"""),
]

def R(id, props, shas, expect="detect", note=""):
    return {"id": id, "props": props, "edits": [], "revert": shas, "expect": expect, "note": note}

MUTANTS += [
    # ---- reverting each repair made in /repo (the check must report the original defect again)
    R("fix-revert-D1-parse-empty", ["C02"], ["239e0ee"]),
    R("fix-revert-D2-ctcp-args1", ["C02", "C01"], ["6588851"]),
    R("fix-revert-D3-userhost", ["C02"], ["8c3913c"]),
    R("fix-revert-D4-public-empty", ["C02"], ["f849333"]),
    R("fix-revert-D5-tag-backslash", ["C01"], ["0839b32"]),
    R("fix-revert-D6-connect-while-connected", ["C06"], ["578f8fb"]),
    R("fix-revert-D11-connected-lock", ["C07", "C06"], ["4cadd14"]),
    R("fix-revert-D9-me-nil", ["C07"], ["b46c41e"]),
    R("fix-revert-D12-cancel-watcher", ["C07"], ["284a71a"]),
    R("fix-revert-D15-caps-survive-reconnect", ["C19"], ["a5060ce"]),
    R("fix-revert-D16-stale-nick-at-reregistration", ["C18"], ["4fb2257"]),
    # ---- C06
    M("c06-close-checks-connected-unlocked", ["C06"], CONN, """	conn.mu.Lock()
	if !conn.connected || gen != conn.generation {
		conn.mu.Unlock()
		return nil
	}""", """	if !conn.connected || gen != conn.generation {
		return nil
	}
	conn.mu.Lock()""", note="two coinciding closers both pass the test: DISCONNECTED twice"),
    M("c06-connected-false-after-wait", ["C06"], CONN, """	conn.setConnected(false)
	err := conn.sock.Close()""", """	err := conn.sock.Close()
	defer conn.setConnected(false)""", note="Connected() still true inside DISCONNECTED handlers"),
    M("c06-send-no-close-on-write-error", ["C06"], CONN, """				logging.Error("irc.send(): %s", err.Error())
				// We can't defer this, because Close() waits for it.
				conn.wg.Done()
				conn.close(gen)
				return""", """				logging.Error("irc.send(): %s", err.Error())
				// We can't defer this, because Close() waits for it.
				conn.wg.Done()
				return"""),
    M("c06-register-also-on-error", ["C06"], CONN, """	err := conn.internalConnect(ctx)
	if err == nil {
		conn.dispatch(&Line{Cmd: REGISTER, Time: time.Now()})
	}""", """	err := conn.internalConnect(ctx)
	if err == nil || !conn.Connected() && conn.cfg.Server != "" {
		conn.dispatch(&Line{Cmd: REGISTER, Time: time.Now()})
	}"""),
    M("c06-connected-true-before-dial", ["C06"], CONN, """	// Only reset per-connection state once we know there is no live
	// connection whose goroutines are still using it.
	conn.initialise()
""", """	// Only reset per-connection state once we know there is no live
	// connection whose goroutines are still using it.
	conn.initialise()
	conn.setConnected(true)
""", note="a failed dial leaves Connected() true"),
    M("c06-register-async", ["C06"], CONN, """	if err == nil {
		conn.dispatch(&Line{Cmd: REGISTER, Time: time.Now()})
	}""", """	if err == nil {
		go conn.dispatch(&Line{Cmd: REGISTER, Time: time.Now()})
	}""", note="REGISTER not finished when Connect returns"),
    M("c06-disconnected-only-for-current-gen", ["C06"], CONN, """	conn.mu.Unlock()
	// Dispatch after closing connection but before reinit
	// so event handlers can still access state information.
	conn.dispatch(&Line{Cmd: DISCONNECTED, Time: time.Now()})""", """	conn.mu.Unlock()
	// Dispatch after closing connection but before reinit
	// so event handlers can still access state information.
	if err == nil {
		conn.dispatch(&Line{Cmd: DISCONNECTED, Time: time.Now()})
	}""", expect="control", note="the scripted socket's Close never fails, so this is invisible here (a real socket may fail)"),
    # ---- C07
    M("c07-drain-once", ["C07"], CONN, """	for exited := false; !exited; {
		select {
		case <-conn.in:
		case <-conn.out:
		case <-done:
			exited = true
		}
	}""", """	conn.drainIn()
	conn.drainOut()
	<-done"""),
    M("c07-no-generation-check", ["C07"], CONN, "	if !conn.connected || gen != conn.generation {", "	if !conn.connected {"),
    M("c07-ping-ignores-ctx", ["C07"], CONN, """		case <-ctx.Done():
			// control channel closed, bail out
			tick.Stop()
			return""", """		case <-ctx.Done():
			// control channel closed, bail out
			if conn.Connected() {
				continue
			}
			tick.Stop()
			return""", expect="control", note="Connected() is already false when the context is cancelled by Close"),
    M("c07-initialise-keeps-in-queue", ["C07"], CONN, "	conn.in = make(chan *Line, 32)\n", "	if conn.in == nil {\n		conn.in = make(chan *Line, 32)\n	}\n", note="stale lines of the previous connection are delivered to the next"),
    M("c07-initialise-no-wipe", ["C07"], CONN, """	if conn.st != nil {
		conn.st.Wipe()
	}
}""", """}"""),
    M("c07-ping-leak", ["C07"], CONN, """		if conn.cfg.PingFreq > 0 {
			conn.wg.Add(1)
			go conn.ping(ctx)
		}""", """		if conn.cfg.PingFreq > 0 {
			conn.wg.Add(1)
			go conn.ping(context.Background())
			conn.wg.Done()
		}""", note="ping goroutine outlives the connection"),
    M("c07-register-uses-config-nick", ["C07"], H, "	conn.Nick(conn.cfg.Me.Nick)\n	conn.User", "	conn.Nick(conn.Me().Nick)\n	conn.User", expect="control"),
]

MUTANTS += [
    # ---- C17
    M("c17-433-adopts-unconditionally", ["C17"], H, """	if line.Args[1] == me.Nick {
		if conn.st != nil {""", """	if line.Args[1] == me.Nick || line.Args[0] != "*" {
		if conn.st != nil {""", note="a refused change after the welcome is adopted although the server did not confirm it"),
    M("c17-hnick-compares-args0", ["C17"], H, "	if conn.st == nil && line.Nick == conn.cfg.Me.Nick {", "	if conn.st == nil && strings.EqualFold(line.Nick, conn.cfg.Me.Nick) {", note="another user whose nick differs only in case renames: client follows"),
    M("c17-001-ignores-server-nick", ["C17"], H, "		conn.cfg.Me.Nick = nick\n		if ok {", "		if ok {"),
    M("c17-defaultnewnick-mod-62", ["C17"], CONN, "		c = 'A' + (((c - 'A') + 1) % 61)", "		c = 'A' + (((c - 'A') + 1) % 62)", expect="control", note="'}' maps to '~' instead of wrapping: still a different nick of the same length, which is all the property states"),
    M("c17-defaultnewnick-mod-60", ["C17"], CONN, "		c = 'A' + (((c - 'A') + 1) % 61)", "		c = 'A' + (((c - 'A') + 1) % 60)", note="'|' maps to 'A' and '}' to 'B'... wait: 60%60=0 -> '|'->'A'; '}'->61%60=1->'B': all differ; control", expect="control"),
    M("c17-defaultnewnick-keeps-underscore", ["C17"], CONN, "	default:\n		c = '_'\n	}\n	return old[:len(old)-1] + string(c)", "	default:\n		c = '_'\n	}\n	if c > '}' {\n		return old\n	}\n	return old[:len(old)-1] + string(c)", expect="control"),
    M("c17-defaultnewnick-digit-mod-9", ["C17"], CONN, "		c = '0' + (((c - '0') + 1) % 10)", "		c = '0' + (((c - '0') + 1) % 9)", note="'8' maps to '0'... and '9' to '1': still different; '8'->'0' fine", expect="control"),
    M("c17-433-answers-current-nick", ["C17"], H, "	neu := conn.cfg.NewNick(line.Args[1])", "	neu := conn.cfg.NewNick(me.Nick)", note="derives the new nick from the current one instead of the refused one"),
    M("c17-stnick-ignores-me", ["C17"], SH, "	nk := conn.st.ReNick(line.Nick, line.Args[0])", "	nk := conn.cfg.Me\n	if line.Nick != conn.cfg.Me.Nick {\n		nk = conn.st.ReNick(line.Nick, line.Args[0])\n	}", note="tracked client ignores its own confirmed nick change when cfg.Me is current"),
    M("c17-revert-D9", ["C17"], H, "", "", expect="skip"),
    # ---- C13 / C05
    M("c13-part-ignores-nick", ["C13"], SH, "	conn.st.Dissociate(line.Args[0], line.Nick)", "	conn.st.Dissociate(line.Args[0], conn.Me().Nick)"),
    M("c13-kick-uses-line-nick", ["C13"], SH, "	conn.st.Dissociate(line.Args[0], line.Args[1])", "	conn.st.Dissociate(line.Args[0], line.Nick)"),
    M("c13-quit-noop", ["C13"], SH, "	conn.st.DelNick(line.Nick)", "	_ = line.Nick"),
    M("c13-353-at-maps-to-voice", ["C13"], SH, """				case '@':
					conn.st.ChannelModes(ch.Name, "+o", nick)""", """				case '@':
					conn.st.ChannelModes(ch.Name, "+v", nick)"""),
    M("c13-353-no-prefix-strip-halfop", ["C13"], SH, "			case '~', '&', '@', '%', '+':\n				nick = nick[1:]", "			case '~', '&', '@', '+':\n				nick = nick[1:]"),
    M("c13-join-creates-for-others", ["C13"], SH, """		if !conn.Me().Equals(nk) {
			logging.Warn("irc.JOIN(): JOIN to unknown channel %s received "+
				"from (non-me) nick %s", line.Args[0], line.Nick)
			return
		}""", """		if !conn.Me().Equals(nk) && nk == nil {
			logging.Warn("irc.JOIN(): JOIN to unknown channel %s received "+
				"from (non-me) nick %s", line.Args[0], line.Nick)
			return
		}""", note="a tracked user joining an untracked channel creates it: a channel is tracked without the client on it (was mislabelled a control while its pattern was stale)"),
    M("c13-stnick-swapped", ["C13"], SH, "	nk := conn.st.ReNick(line.Nick, line.Args[0])", "	nk := conn.st.ReNick(line.Args[0], line.Nick)"),
    M("c13-324-args0", ["C13"], SH, "		conn.st.ChannelModes(line.Args[1], line.Args[2], line.Args[3:]...)", "		conn.st.ChannelModes(line.Args[1], line.Args[2], line.Args[4:]...)"),
    M("c13-topic-on-332-only", ["C13"], SH, "		conn.st.Topic(line.Args[0], line.Args[1])", "		conn.st.Topic(line.Args[0], line.Args[len(line.Args)-1][:0]+line.Args[1])", expect="control"),
    M("c13-352-name-with-hops", ["C13"], SH, "	conn.st.NickInfo(nk.Nick, line.Args[2], line.Args[3], a[1])", "	conn.st.NickInfo(nk.Nick, line.Args[2], line.Args[3], a[0]+\" \"+a[1])"),
    M("c13-mode-args-shifted", ["C13"], SH, "		conn.st.ChannelModes(line.Args[0], line.Args[1], line.Args[2:]...)", "		conn.st.ChannelModes(line.Args[0], line.Args[1], line.Args[1:]...)"),
    M("c05-swap-int-fg", ["C05"], DISP, """	conn.intHandlers.dispatch(conn, line)
	go conn.bgHandlers.dispatch(conn, line)
	conn.fgHandlers.dispatch(conn, line)""", """	go conn.bgHandlers.dispatch(conn, line)
	conn.fgHandlers.dispatch(conn, line)
	conn.intHandlers.dispatch(conn, line)"""),
    M("c05-int-async", ["C05"], DISP, "	conn.intHandlers.dispatch(conn, line)\n	go conn.bgHandlers", "	go conn.intHandlers.dispatch(conn, line)\n	go conn.bgHandlers"),
    M("c05-state-handlers-in-fg", ["C05"], SH, "		conn.stRemovers = append(conn.stRemovers, conn.handle(n, h))", "		conn.stRemovers = append(conn.stRemovers, conn.Handle(n, h))"),
    M("c05-bg-before-int", ["C05"], DISP, """	conn.intHandlers.dispatch(conn, line)
	go conn.bgHandlers.dispatch(conn, line)""", """	go conn.bgHandlers.dispatch(conn, line)
	conn.intHandlers.dispatch(conn, line)"""),
]
MUTANTS = [m for m in MUTANTS if m.get("expect") != "skip"]

MUTANTS += [
    # ---- C19
    M("c19-intersect-wrong-side", ["C19"], H, """	for cap := range c.caps {
		if !other.Has(cap) {
			delete(c.caps, cap)
		}
	}""", """	for cap := range other.caps {
		if !c.Has(cap) {
			delete(c.caps, cap)
		}
	}"""),
    M("c19-add-ignores-minus", ["C19"], H, """		if strings.HasPrefix(cap, "-") {
			c.caps[cap[1:]] = false
		} else {""", """		if strings.HasPrefix(cap, "-") {
			c.caps[cap] = false
		} else {"""),
    M("c19-904-no-end", ["C19"], H, """	logging.Warn("SASL authentication failed")
	conn.Cap(CAP_END)""", """	logging.Warn("SASL authentication failed")"""),
    M("c19-gotsasl-sticky", ["C19"], H, "	gotSasl := false\n	for _, cap := range caps {", "	gotSasl := conn.saslRemainingData != nil\n	for _, cap := range caps {", note="after a SASL exchange the server ended without asking for the data, a later ACK of other capabilities is not answered with CAP END (visible since 'early outcome' scripts exist; was a control before)"),
    M("c19-request-all-wanted", ["C19"], H, "	reqCaps.Intersect(conn.supportedCaps)\n", "	if reqCaps.Size() > 3 {\n		reqCaps.Intersect(conn.supportedCaps)\n	}\n", note="small wanted sets are requested whole"),
    M("c19-authenticate-without-ack", ["C19"], H, """	if conn.saslRemainingData != nil {
		data := "+" // plus sign representing empty data""", """	if conn.saslRemainingData == nil && len(line.Args) > 0 && line.Args[0] == "+" {
		if _, ir, err := conn.cfg.Sasl.Start(); err == nil {
			conn.saslRemainingData = ir
		}
	}
	if conn.saslRemainingData != nil {
		data := "+" // plus sign representing empty data""", note="answers a stray AUTHENTICATE + with credentials before sasl was acknowledged"),
    M("c19-splitargs-drops-boundary", ["C19"], CMD, """		for i < len(args) && len(currArg)+len(args[i])+1 < maxLen {
			currArg += " " + args[i]
			i++
		}
		res = append(res, currArg)""", """		for i < len(args) && len(currArg)+len(args[i])+1 < maxLen {
			currArg += " " + args[i]
			i++
		}
		if i < len(args) && len(currArg)+len(args[i])+1 == maxLen {
			i++
		}
		res = append(res, currArg)""", note="a capability that would exactly fill the line is dropped"),
    M("c19-nak-no-end", ["C19"], H, "func (conn *Conn) handleCapNak(caps []string) {\n	conn.Cap(CAP_END)", "func (conn *Conn) handleCapNak(caps []string) {\n	if len(caps) > 1 {\n		conn.Cap(CAP_END)\n	}", note="a NAK of a single capability leaves negotiation open"),
    M("c19-has-reports-supported", ["C19"], CONN, "	return conn.currCaps.Has(cap)", "	return conn.currCaps.Has(cap) || conn.supportedCaps.Has(cap) && conn.currCaps.Size() > 2"),
    M("c19-plain-empty-plus", ["C19"], H, "		if len(conn.saslRemainingData) > 0 {", "		if len(conn.saslRemainingData) > 2 {", note="a two-byte PLAIN response (empty user and password) is sent as '+'"),
]

MUTANTS += [
    # ---- C14
    M("c14-nick-shares-modes", ["C14"], NK, "		Modes:    nk.modes.Copy(),", "		Modes:    nk.modes,"),
    M("c14-channel-shares-privs", ["C14"], CH, "		c.Nicks[n.nick] = cp.Copy()", "		c.Nicks[n.nick] = cp"),
    M("c14-ison-returns-live", ["C14"], NK, "	cp, ok := nk.chans[ch]\n	return cp.Copy(), ok", "	cp, ok := nk.chans[ch]\n	return cp, ok"),
    M("c14-associate-returns-live", ["C14"], TR, "	nk.addChannel(ch, cp)\n	return cp.Copy()", "	nk.addChannel(ch, cp)\n	return cp"),
    M("c14-getnick-no-mutex", ["C14"], TR, """func (st *stateTracker) GetNick(n string) *Nick {
	st.mu.Lock()
	defer st.mu.Unlock()""", """func (st *stateTracker) GetNick(n string) *Nick {"""),
    M("c14-ison-no-mutex", ["C14"], TR, """func (st *stateTracker) IsOn(c, n string) (*ChanPrivs, bool) {
	st.mu.Lock()
	defer st.mu.Unlock()""", """func (st *stateTracker) IsOn(c, n string) (*ChanPrivs, bool) {"""),
    M("c14-me-cached", ["C14", "C12"], TR, """func (st *stateTracker) Me() *Nick {
	st.mu.Lock()
	defer st.mu.Unlock()
	return st.me.Nick()""", """var cachedMe *Nick

func (st *stateTracker) Me() *Nick {
	st.mu.Lock()
	defer st.mu.Unlock()
	if cachedMe == nil || cachedMe.Nick != st.me.nick {
		cachedMe = st.me.Nick()
	}
	return cachedMe""", note="stale snapshot until the nick changes; the same object is handed out repeatedly"),
    M("c14-chanmode-copy-shallow", ["C14"], CH, """func (cm *ChanMode) Copy() *ChanMode {
	if cm == nil {
		return nil
	}
	c := *cm
	return &c""", """func (cm *ChanMode) Copy() *ChanMode {
	return cm"""),
    M("c14-dissociate-two-step-lock", ["C14"], TR, """func (st *stateTracker) Dissociate(c, n string) {
	st.mu.Lock()
	defer st.mu.Unlock()
	nk, nok := st.nicks[n]
	ch, cok := st.chans[c]
""", """func (st *stateTracker) Dissociate(c, n string) {
	st.mu.Lock()
	nk, nok := st.nicks[n]
	ch, cok := st.chans[c]
	st.mu.Unlock()
	runtime_Gosched()
	st.mu.Lock()
	defer st.mu.Unlock()
""", expect="skip"),
]
MUTANTS = [m for m in MUTANTS if m.get("expect") != "skip"]

MUTANTS += [
    # ---- C10
    M("c10-threshold-9s", ["C10"], CONN, "	if conn.badness > 10*time.Second {", "	if conn.badness > 9*time.Second {"),
    M("c10-threshold-12s", ["C10"], CONN, "	if conn.badness > 10*time.Second {", "	if conn.badness > 12*time.Second {"),
    M("c10-no-floor", ["C10"], CONN, """	if conn.badness += linetime - elapsed; conn.badness < 0 {
		// negative badness times are badness...
		conn.badness = 0
	}""", """	conn.badness += linetime - elapsed"""),
    M("c10-per-char-100", ["C10"], CONN, "	linetime := 2*time.Second + time.Duration(chars)*time.Second/120", "	linetime := 2*time.Second + time.Duration(chars)*time.Second/100"),
    M("c10-base-1s", ["C10"], CONN, "	linetime := 2*time.Second + time.Duration(chars)*time.Second/120", "	linetime := 1*time.Second + time.Duration(chars)*time.Second/120"),
    M("c10-returns-badness", ["C10"], CONN, "	if conn.badness > 10*time.Second {\n		return linetime\n	}", "	if conn.badness > 10*time.Second {\n		return conn.badness - 10*time.Second\n	}"),
    M("c10-write-sleeps-half", ["C10"], CONN, "			<-time.After(t)", "			<-time.After(t / 2)"),
    M("c10-flood-inverted", ["C10"], CONN, "	if !conn.cfg.Flood {\n		if t := conn.rateLimit(len(line)); t != 0 {", "	if conn.cfg.Flood {\n		if t := conn.rateLimit(len(line)); t != 0 {"),
    M("c10-lastsent-not-updated", ["C10"], CONN, "	conn.lastsent = time.Now()\n	// If we've sent more", "	// If we've sent more"),
    M("c10-gt-to-ge", ["C10"], CONN, "	if conn.badness > 10*time.Second {", "	if conn.badness >= 10*time.Second {", expect="control", note="the boundary has measure zero on a real clock"),
    M("c10-ratelimit-counts-crlf", ["C10"], CONN, "		if t := conn.rateLimit(len(line)); t != 0 {", "		if t := conn.rateLimit(len(line) + 240); t != 0 {", note="only the wire leg can see how write() calls rateLimit"),
    M("c10-sleep-capped-3s", ["C10"], CONN, "			<-time.After(t)", "			if t > 3*time.Second {\n				t = 3 * time.Second\n			}\n			<-time.After(t)", note="long lines are held for less than their charge"),
]

MUTANTS += [
    M("c18-direct-dial-no-tls", ["C18"], CONN, "	if conn.cfg.SSL {\n		logging.Info(\"irc.Connect(): Performing SSL handshake.\")", "	if conn.cfg.SSL && conn.cfg.Proxy != \"\" {\n		logging.Info(\"irc.Connect(): Performing SSL handshake.\")", note="only the loopback leg dials without a proxy"),
    M("c18-direct-dial-drops-pass", ["C18"], H, "	if conn.cfg.Pass != \"\" {\n		conn.Pass(conn.cfg.Pass)\n	}", "	if conn.cfg.Pass != \"\" && (conn.cfg.Proxy != \"\" || !conn.cfg.SSL) {\n		conn.Pass(conn.cfg.Pass)\n	}", note="PASS omitted on direct TLS connections"),
]

"""Human-written text for MANIFEST.json (kept apart from the run configuration)."""

NOTES = ("All checks are generated-input searches against explicit oracles (property-based testing, small-scope enumeration, "
         "native coverage-guided fuzzing). exit 0 = held on everything explored; exit 1 + VIOLATION line = violation; "
         "exit 2 = inconclusive (build or harness failure). Known and fixed findings are listed in known_findings.json.")

NOT_APPLICABLE = {}

TEXT = {
    "C01": {
        "technique": "property-based testing (rapid): grammar-directed generator + reference printer/expected-parse oracle; parser and live-connection legs",
        "level_text": "Generated well-formed messages (tags, all source forms, 0-14 middles, multi-space gaps, trailing, CTCP) are rendered by a reference printer; ParseLine, Text/Target/Public and the line a handler receives over a real connection are compared with the components the generator chose; every message is parsed a second time with the letter case of its source flipped; on a fraction of the connection cases the message arrives in two reads with a transient read error between them; a concurrent leg has 2-6 goroutines parse their own messages at once. Sampling, not proof: 63k cases quick, 2M thorough.",
        "level_note": "Trusted: the reference printer and expected-parse function in harness/props/c01_test.go (written from RFC 2812 2.3.1, the IRCv3 tag spec and line.go's doc comments). Inputs the statement leaves open are never generated.",
    },
    "C02": {
        "technique": "small-scope exhaustive enumeration over a special-atom alphabet + random/coverage-guided fuzzing + generated hostile sessions on a live connection",
        "level_text": "Every string of up to 4 (quick) / 5 (thorough) atoms from a 26-atom alphabet of all special bytes and handled verbs is parsed and probed with Text/Target/Public/Copy (exhaustive within that bound); random and coverage-guided strings go beyond it; live sessions mix every built-in verb with too few/empty/odd parameters (tracking and SASL on and off) with numbered well-formed lines that must all arrive in order, while an application goroutine polls the capability, connection and tracker queries and a one-shot handler removes itself; a process death in goirc code is attributed to the journalled session.",
        "level_note": "Exhaustive only within the stated atom bound; beyond it sampling. A handler panic recovered by Config.Recover is not a crash (C16's subject).",
    },
    "C08": {
        "technique": "property-based testing (rapid) + native fuzzing: hostile argument generator over all 28 command methods, wire-byte predicate oracle",
        "level_text": "Each exported command method is called with generated hostile strings in every fixed and variadic position and with all interesting SplitLen values; the bytes that call put on the wire (delimited by two unforgeable marker lines) must be whole CRLF-terminated lines free of CR/LF, each starting with the method's verb; Raw must write exactly the prefix before the first newline. A long-stall leg keeps the queue full behind a server that does not read for 5.6 s while hostile calls wait. A session leg repeats the calls with flood control on (from construction, or switched on through Config() on the live client) and while the client is not connected (after Close / server EOF), then reconnects and examines the whole transcript of the new connection.",
        "level_note": "Trusted: the scripted server's transcript and the marker delimiting. Sampling (30k calls quick, 2.4M + fuzzing thorough).",
    },
    "C11": {
        "technique": "property-based testing (rapid) + native fuzzing: layout-directed text generator, lossless-split oracle on the wire",
        "level_text": "Texts of 0-8000 bytes laid out to hit each cut rule (sentence break, word break, hard cut, boundaries at SplitLen and multiples) are sent through every splitting method with every interesting SplitLen; the pieces read back from the wire must be bounded, carry the continuation marker, be non-empty and concatenate to the text.",
        "level_note": "Trusted: the wire transcript and the piece extraction in c11_test.go. Sampling; termination is checked with a 20 s stall bound per call.",
    },
    "C12": {
        "technique": "model-based testing: exhaustive closure of reachable model states over a small universe executed against the real tracker + long random histories (rapid), relational reference model as oracle",
        "level_text": "A relational reference model (sets of nicks/channels, membership relation with privileges) is explored breadth-first to closure over a small name universe; from every reachable state every operation (quick: every pair of operations) with every argument tuple, including the empty name and names in use, is executed on a real tracker rebuilt by replaying the shortest path, comparing every return value and the whole observable state. Random 10-300 step histories over a larger universe with full mode alphabets cover what the small universe cannot. Exhaustive within the stated universe (evidence reports states/edges and whether the frontier emptied), sampling beyond.",
        "level_note": "Trusted: harness/model/tracker.go. The closure reaches each model state by its shortest path only (hidden implementation state reachable only through longer histories is covered by the two-operation suffixes and the random histories, not exhaustively).",
    },
    "C03": {
        "technique": "property-based testing (rapid) of generated sessions with drawn read segmentation, handler durations and GOMAXPROCS; invariant oracle over a global enter/exit tick history",
        "level_text": "Sessions of numbered lines are fed through drawn read segmentations (one read, byte-wise, random cuts, a line longer than the read buffer) to 1-4 foreground handlers per verb with drawn durations under GOMAXPROCS 1/2/4/16, ending in EOF / read error / Close with lines still unread; some handlers panic and the application's own Config().Recover callback (which does drawn work) ends their invocation; Config().Timeout may be lowered to 1-3 ms on the live client. The enter/exit history must show wire order, no overlap between consecutive lines, exactly-once delivery of every acknowledged line, CONNECTED placed after the line before 001 and before the line after it with Me() already updated, and DISCONNECTED after every foreground invocation.",
        "level_note": "Goroutine scheduling is perturbed, not controlled: a pass is 'no violation in N explored sessions'. A schedule-dependent failure is replayed 200 times and the hit rate reported.",
    },
    "C04": {
        "technique": "model-based stateful property testing (rapid): generated Handle/HandleFunc/HandleBG/Remove/event/in-handler/racing histories against a multiset model",
        "level_text": "Histories over registration, removal (first/middle/last/only, long lists), events in any letter case, one-shot in-handler scripts (self-removal, removal of another handler, registration in the same or the other set) and registrations/removals racing with an event are executed on a live connection; per event the set of invoked handlers must equal the model's foreground list at dispatch and background list at background dispatch (pinned with sentinels), exactly once each. A population leg registers permanent struct-pointer handlers on 6-20 names (some values twice), a list of 63-257 handlers on one name, adds and removes handlers on up to 1000 other names between rounds, and counts one run per live registration per event.",
        "level_note": "Racing operations fix only the outcome after the racing call returned ('maybe' during the event in flight). Scheduling is perturbed, not controlled.",
    },
    "C09": {
        "technique": "property-based testing (rapid): concurrent sender scenarios with a write-gated server; multiset + per-sender-order oracle on the wire transcript",
        "level_text": "1-8 goroutines and 0-3 handler-triggered senders issue uniquely numbered lines through different command methods while the scripted server reads fast, slowly or in bursts (so the 32-slot queue fills and senders block); the transcript must contain exactly the issued lines, once each, byte for byte, each sender's lines in issue order.",
        "level_note": "Flood control off, connection stays up (C10 / C07 cover the rest). Interleavings are sampled, not enumerated.",
    },
    "C15": {
        "technique": "property-based testing (rapid): generated lines x handler populations that scribble; value and pointer-identity oracle",
        "level_text": "Generated lines (with/without tags, 0-15 arguments, verbs with and without internal handlers) are delivered to 1-4 foreground and 0-3 background handlers; each records what it received, some overwrite every argument, tag and field at drawn moments, others look again later. Every record must equal the expected parse and no two invocations may share the *Line, the Args backing array or the Tags map. In a third of the scenarios an application Config().Recover callback (installed on the existing client) scribbles over the line it is handed, user handlers panic when done, and short lines make built-in handlers panic.",
        "level_note": "Internal handlers' lines cannot be observed from outside; they are covered indirectly (their edits would show in user handlers if storage were shared).",
    },
    "C16": {
        "technique": "property-based testing (rapid): generated handler populations with panic / block scripts over event sequences; counting oracle with a capturing logger or custom Recover",
        "level_text": "Foreground and background handlers panic with six kinds of value (string, error, int, nil, struct, runtime error) or block forever (background) according to per-event scripts, mixed with built-in handlers that panic on short lines; every well-behaved handler must still run once per matching event in order, every panic must reach the recovery function exactly once with the event's line (or be logged exactly once by the default), and delivery must continue while background handlers are blocked.",
        "level_note": "A stall of 20 s (typical latency < 1 ms) is reported as a violation of 'not delayed' together with a goroutine dump.",
    },
    "C18": {
        "technique": "property-based testing (rapid): configuration x session generator; dial-address, registration-prefix and PING/PONG token oracles on the wire",
        "level_text": "Generated configurations and sessions are run through real Connect cycles against the scripted server: the dialled address (default port 6667/6697 only when absent), the exact registration prefix (CAP LS?, PASS?, NICK current, USER ident 12 * :name), one PONG per server PING carrying the same token for all token shapes (also when the PING arrives behind a full output queue), and client PINGs exactly when PingFreq > 0 (on every connect cycle). Configuration (Server, SSL and Pass together, or SSL alone with Server known from the start) may be changed through Config() between Client() and Connect(); before a reconnect the nick may have been refused (433) or changed by the server without anything calling Me(). A regression leg replays the history of the repaired C18 defect.",
        "level_note": "Scripted-socket leg: SSL configurations are checked for the dialled address only. Loopback leg: real TCP and TLS sessions without a proxy, default ports 6667/6697 actually reached (skipped, counted, if they cannot be bound). Bracketed IPv6 without a port is outside the generated domain.",
    },
    "C20": {
        "technique": "property-based testing (rapid): password x configuration x failure-point generator; differential oracle against a password-less control run over a capturing logger",
        "level_text": "Every record goirc hands to an installed capturing logger (all levels; format, formatted text and each argument) is searched for the generated password in normal and failing sessions (dial error, write error at the PASS line, EOF, refusal) with reconnects; exactly one masked record per PASS line written is required.",
        "level_note": "Only the complete password is searched for; partial disclosure is outside the statement.",
    },
    "C06": {
        "technique": "property-based fault injection (rapid): configuration x session x coinciding-endings generator with a scripted socket; counting oracle on lifecycle events and Connected() samples",
        "level_text": "Every way a connection can end (Close from 1-4 goroutines, EOF, read error, write error, context cancellation, read/write faults armed at the k-th call) is generated singly and in coinciding pairs/triples released from a barrier or staggered, over all configuration bits and with Connect called again at drawn points; REGISTER must have completed exactly once when Connect returns, DISCONNECTED must fire exactly once per established connection, Connected() must agree inside the handlers, refused/failed Connects must fire nothing and leave the live connection working. A reconnect leg issues the next Connect while the previous connection is still being torn down (from inside the DISCONNECTED handler, or from 1-3 goroutines the instant Connected() turns false, with slow foreground work pending): exactly one Connect succeeds, and REGISTER / DISCONNECTED fire exactly once per connection, the old DISCONNECTED while the new connection is up.",
        "level_note": "Fault moments are sampled (k-th call, on release, staggered by yields), schedules perturbed not controlled. The scripted socket's own Close never fails.",
    },
    "C07": {
        "technique": "property-based fault injection (rapid): backlog x sender x server-reading x cause x reconnect-origin x cycles generator; bounded-time completion, per-connection goroutine-leak and fresh-connection oracles",
        "level_text": "Inbound backlogs up to ~400 lines, handlers that are slow / emit up to 10 lines / query Connected(), up to 4 user goroutines sending hundreds of lines, a server that reads fast, slowly or not at all, flood control on or off, six disconnect causes, reconnect from inside the DISCONNECTED handler, from another goroutine, from a watchdog polling Connected(), or from handler and supervisor at once (one is refused), up to 5 cycles: DISCONNECTED and every Close must complete within the bound, the connection's goroutines (identified by receiver pointer in the stack dump) must all exit, and each reconnect must yield a connection that stays up, registers with the current nick, answers PING, has a reset tracker and receives nothing stale.",
        "level_note": "'Bounded' = 20 s (typical milliseconds). User goroutines left blocked in a send on a dead connection are not promised anything and are not checked. Liveness is decided as bounded-time safety; a dead-lock that needs a rare interleaving can be missed.",
    },
    "C05": {
        "technique": "property-based differential testing (rapid): model-generated sessions, handlers snapshot the tracker; reference states from a separate lock-step run",
        "level_text": "Conformant sessions from the C13 network model, every line tagged with its index, are fed to a tracked client whose foreground and background handlers on every state-changing verb snapshot the whole tracker through the public API. In lock-step mode every handler must see exactly the reference state after its line; in burst mode (all lines at once, slow foreground handlers) every foreground handler must see its line applied and no later line. In a quarter of the sessions tracking is switched on only on the live connection, after lines that mean nothing to a tracker; inside every handler Me() must agree with GetNick(Me().Nick).",
        "level_note": "Background handlers are checked in lock-step mode only (in burst mode later lines may legitimately be applied while they run). Interleavings are sampled.",
    },
    "C13": {
        "technique": "model-based property testing (rapid): model IRC network generates conformant sessions and serves the client's MODE/WHO requests in lock-step; ground-truth + revealed-view oracle; invariant oracle for arbitrary lines",
        "level_text": "A model IRC network (users, channels, privileges, topics, modes, events the client cannot see) generates sessions of every event kind; after every event the tracker, read through StateTracker() only, must equal the ground truth for the client's channels, the privileges the protocol revealed (NAMES prefix then MODE changes), and user details as far as JOIN prefixes and WHO replies revealed them. A second leg feeds arbitrary lines with odd/empty/prefixed names and checks the three stated invariants after every line.",
        "level_note": "Trusted: harness/model/ircnet.go as the definition of 'conformant'. User modes are not compared. List modes b/e/I are generated (also mixed with other letters); other server-specific argument-taking modes are not.",
    },
    "C17": {
        "technique": "model-based property testing (rapid): scripted-server model of nick ownership; exhaustive last-byte sweep + random strings for DefaultNewNick",
        "level_text": "Scripts of pre-welcome collisions, welcome with the same or a server-chosen nick, client changes confirmed or refused up to three times first, server-forced changes and other users' changes to resembling names are run in lock-step; and reconnects of the same client (Config().Me.Nick optionally edited while disconnected) are run in lock-step; after every step Config().Me (read first) and Me() must be non-nil and Me().Nick must be the nick the model server uses; each 433 must be answered by exactly one NICK gen(refused). DefaultNewNick is checked on every last byte 0-255 and on random strings.",
        "level_note": "Four generators (default and three custom). The chain of generated nicks is kept clear of the current nick and other users' nicks (a server would not refuse/confirm those consistently).",
    },
    "C19": {
        "technique": "exhaustive small-scope enumeration of negotiation scripts + property-based testing (rapid) of large capability sets, against a negotiation model",
        "level_text": "All 13 824 combinations of wanted subset x SASL mechanism x advertised subset x server reply x SASL outcome x stray AUTHENTICATE are run as live sessions and compared line by line with a model of the negotiation (REQ as a set, AUTHENTICATE payload per mechanism, CAP END after every terminal step, HasCapability/SupportsCapability at every step); random sets of 20-120 long names force the REQ to be split over several lines. A sessions leg runs 2-3 negotiations on one client, each with its own wanted set / mechanism (installed through Config() on the existing client), advertised set, reply and outcome, with links that drop before the LS reply, after the request, after AUTHENTICATE <mechanism> or after the SASL data, and a capability the application requests itself through Conn.Cap; the model is per connection. A regression leg replays the histories of the two repaired C19 defects.",
        "level_note": "Exhaustive only over the stated universe {a,b,z,sasl}; multi-line LS (CAP 302) is not generated because the client asks for plain CAP LS.",
    },
    "C10": {
        "technique": "property-based testing (rapid) on two clocks: in-package virtual-clock sequences against interval arithmetic over Hybrid's rule, and concurrent real-clock wire scenarios with delay-independent and one-sided timing oracles",
        "level_text": "Virtual clock: 20k (quick) to 1.6M (thorough) sequences of up to 60 (length, idle gap) steps are pushed through rateLimit with gaps realised by moving lastsent back; after every step the penalty must lie in the interval the rule allows, never be negative, and the returned hold-back must be the line's own charge exactly when the penalty exceeds 10 s. Real clock: batches of concurrent scenarios measure socket-write timestamps of fresh default clients (plus Flood set / toggled) and check the window bound for every run of consecutive lines, 'held back at least its charge' whenever the replayed penalty must exceed 10 s, and 'not delayed' whenever it cannot (or Flood is set).",
        "level_note": "The virtual-clock leg observes rateLimit, not the sleep in write(); the wire leg observes the sleep but is bounded by wall-clock cost (12 scenarios quick, ~290 thorough). The '>' vs '>=' boundary is not observable on a real clock.",
    },
    "C14": {
        "technique": "property-based testing (rapid) of snapshot privacy (scribble + pointer identity + later-mutation oracles); generated concurrent histories checked for linearizability with porcupine against the relational model; same histories under the Go race detector",
        "level_text": "Leg A: after a random history every value-returning tracker method is called; the value must share no pointer with related reads, stay equal to its deep copy while further operations run, and scribbling over everything reachable from it must leave the full observable state equal to the model. Leg B: 2-6 goroutines x 3-12 operations on one tracker, each call stamped and its return value recorded; porcupine must find a linearization consistent with the C12 model. Leg C: the same leg in a -race build; a race report with a goirc/state frame is a violation.",
        "level_note": "Interleavings are sampled (GOMAXPROCS 2/4/16), not enumerated; porcupine's verdict is exact for each recorded history.",
    },
}

#!/usr/bin/env python3
"""Sensitivity experiments: apply each hand-written mutant to a scratch worktree of /repo, confirm it
compiles and passes goirc's own tests, run the listed checks against it (VERIF_REPO) and record whether
they alarm.  Nothing here is part of a registered check.

  tools/mutants.py [-j N] [--tier quick] [id-prefix ...]
"""
import json, os, subprocess, sys, tempfile, shutil, concurrent.futures as cf
VERIF = os.path.dirname(os.path.dirname(os.path.abspath(__file__)))
sys.path.insert(0, os.path.join(VERIF, "tools"))
from mutant_list import MUTANTS

def run(cmd, **kw):
    return subprocess.run(cmd, stdout=subprocess.PIPE, stderr=subprocess.STDOUT, text=True, **kw)

def one(m, tier):
    wt = tempfile.mkdtemp(prefix="mut-%s-" % m["id"], dir="/tmp")
    out = tempfile.mkdtemp(prefix="mutout-%s-" % m["id"], dir="/tmp")
    os.rmdir(wt)
    res = {"id": m["id"], "props": m["props"], "expect": m.get("expect", "detect"), "note": m.get("note", "")}
    try:
        r = run(["git", "-C", "/repo", "worktree", "add", "--detach", wt, "HEAD"])
        if r.returncode != 0:
            res["error"] = r.stdout; return res
        for sha in m.get("revert", []):
            d = run(["git", "-C", "/repo", "show", sha]).stdout
            r = subprocess.run(["git", "-C", wt, "apply", "-R"], input=d, stdout=subprocess.PIPE, stderr=subprocess.STDOUT, text=True)
            if r.returncode != 0:
                res["error"] = "cannot revert %s: %s" % (sha, r.stdout[-300:]); return res
        for ed in m["edits"]:
            p = os.path.join(wt, ed["file"])
            s = open(p).read()
            if s.count(ed["old"]) != 1:
                res["error"] = "pattern occurs %d times in %s: %r" % (s.count(ed["old"]), ed["file"], ed["old"][:60]); return res
            open(p, "w").write(s.replace(ed["old"], ed["new"]))
        for attempt in range(3):  # goirc's own tests use 1 ms waits and flake under load: retry
            r = run([os.path.join(VERIF, "tools", "repotest.sh"), wt])
            if r.returncode == 0:
                break
        res["repo_tests"] = "pass" if r.returncode == 0 else "FAIL"
        if r.returncode != 0:
            res["repo_tests_output"] = r.stdout[-800:]
        res["checks"] = {}
        for pid in m["props"]:
            env = dict(os.environ, VERIF_REPO=wt, VERIF_OUT_DIR=out, VERIF_SKIP_REGRESS="1")
            r = run([os.path.join(VERIF, "check"), pid, "--tier", tier], env=env, cwd=VERIF)
            lines = [l for l in r.stdout.splitlines() if l.startswith(("VIOLATION", "violation in", "INCONCLUSIVE", "OK "))]
            res["checks"][pid] = {"exit": r.returncode, "summary": lines[-2:] if lines else r.stdout[-300:]}
        return res
    finally:
        run(["git", "-C", "/repo", "worktree", "remove", "--force", wt])
        shutil.rmtree(wt, ignore_errors=True)
        shutil.rmtree(out, ignore_errors=True)

def main():
    args = sys.argv[1:]
    j, tier, sel = 4, "quick", []
    while args:
        a = args.pop(0)
        if a == "-j": j = int(args.pop(0))
        elif a == "--tier": tier = args.pop(0)
        else: sel.append(a)
    ms = [m for m in MUTANTS if not sel or any(m["id"].startswith(s) for s in sel)]
    results = []
    with cf.ThreadPoolExecutor(j) as ex:
        for res in ex.map(lambda m: one(m, tier), ms):
            results.append(res)
            verdicts = {p: ("ALARM" if c["exit"] == 1 else "quiet" if c["exit"] == 0 else "exit%d" % c["exit"]) for p, c in res.get("checks", {}).items()}
            print("%-34s expect=%-7s tests=%-4s %s %s" % (res["id"], res["expect"], res.get("repo_tests", "-"), verdicts, res.get("error", "")), flush=True)
            for p, c in res.get("checks", {}).items():
                if (c["exit"] == 1) != (res["expect"] == "detect"):
                    print("     !! unexpected:", c["summary"], flush=True)
    path = os.path.join(VERIF, "tools", "mutants_results.json")
    old = {}
    if os.path.exists(path):
        old = {r["id"]: r for r in json.load(open(path))}
    for r in results: old[r["id"]] = r
    json.dump(sorted(old.values(), key=lambda r: r["id"]), open(path, "w"), indent=1)

main()

package props

import (
	"context"
	"encoding/json"
	"errors"
	"fmt"
	"runtime"
	"strings"
	"sync"
	"sync/atomic"
	"testing"
	"time"

	"verifharness/evid"
	"verifharness/ircsim"

	"github.com/fluffle/goirc/client"
	"github.com/fluffle/goirc/logging"
	"pgregory.net/rapid"
)

// ---------------------------------------------------------------------------
// C06: lifecycle events fire exactly once and agree with Connected()
// ---------------------------------------------------------------------------

// c06SlowLogger is an application's logger that takes a little while over every record (it writes to a
// file, say): whatever the library logs between two steps of its own widens the gap between them.
type c06SlowLogger struct{}

func (c06SlowLogger) pause()                                    { time.Sleep(150 * time.Microsecond) }
func (l c06SlowLogger) Debug(format string, args ...interface{}) {}
func (l c06SlowLogger) Info(format string, args ...interface{})  { l.pause() }
func (l c06SlowLogger) Warn(format string, args ...interface{})  { l.pause() }
func (l c06SlowLogger) Error(format string, args ...interface{}) { l.pause() }

type c06Scenario struct {
	Tracking   bool `json:"tracking"`
	PingFreqMS int  `json:"ping_freq_ms"`
	Flood      bool `json:"flood"`
	UseCtx     bool `json:"use_ctx"`
	CtxDialer  bool `json:"ctx_dialer"`
	ViaTo      bool `json:"via_connect_to"` // ConnectTo / ConnectToContext instead of Connect / ConnectContext

	Negative string `json:"negative"` // "", noserver, dialerror, cancelled, close_unconnected
	Lines    int    `json:"lines"`
	Welcome  int    `json:"welcome_at"` // -1 none
	Reply    bool   `json:"handlers_reply"`
	// Connect again while connected, after this many lines (each entry one attempt)
	Reconnects []int `json:"connect_again_after"`

	// faults armed before Connect (0 = none): the k-th read / write fails
	ReadErrAt  int `json:"read_err_at"`
	// ReadErrKind: which error a failing read reports (ircsim.ReadError): plain, timed out, reset, unexpected EOF
	ReadErrKind int `json:"read_err_kind,omitempty"`
	WriteErrAt int `json:"write_err_at"`

	// endings released together at the end of the session
	Endings []string `json:"endings"` // close, eof, readerr, writeerr, cancel
	Closers int      `json:"closers"`
	Stagger []int    `json:"stagger"` // yields before each ending fires (barrier when all 0)
	Cycles  int      `json:"cycles"`
}

func genC06(t *rapid.T) *c06Scenario {
	sc := &c06Scenario{
		Tracking:   rapid.Bool().Draw(t, "tracking"),
		PingFreqMS: rapid.SampledFrom([]int{0, 5, 180000}).Draw(t, "pingfreq"),
		Flood:      rapid.IntRange(0, 3).Draw(t, "flood") > 0,
		UseCtx:     rapid.Bool().Draw(t, "use_ctx"),
		CtxDialer:  rapid.Bool().Draw(t, "ctx_dialer"),
		ViaTo:      rapid.Bool().Draw(t, "via_connect_to"),
		Welcome:    -1,
		Cycles:     rapid.SampledFrom([]int{1, 1, 1, 2}).Draw(t, "cycles"),
	}
	if rapid.IntRange(0, 5).Draw(t, "negative") == 0 {
		sc.Negative = rapid.SampledFrom([]string{"noserver", "dialerror", "cancelled", "close_unconnected", "tlsfail", "cancel_in_dial"}).Draw(t, "negative_kind")
		if sc.Negative == "cancelled" {
			sc.UseCtx, sc.CtxDialer = true, true
		}
		if sc.Negative == "cancel_in_dial" {
			// the context is cancelled while a dialer that knows nothing of contexts is at work
			sc.UseCtx, sc.CtxDialer = true, false
		}
		return sc
	}
	sc.Lines = rapid.IntRange(0, 30).Draw(t, "lines")
	if sc.Lines > 0 && rapid.Bool().Draw(t, "has_welcome") {
		sc.Welcome = rapid.IntRange(0, sc.Lines-1).Draw(t, "welcome_at")
	}
	sc.Reply = rapid.Bool().Draw(t, "reply")
	if !sc.Flood {
		// flood control on: every line costs >= 2 s of penalty; keep the session short (C07/C10 cover the rest)
		sc.Reply, sc.Cycles = false, 1
	}
	for k := rapid.SampledFrom([]int{0, 0, 1, 2, 3}).Draw(t, "reconnects"); k > 0; k-- {
		sc.Reconnects = append(sc.Reconnects, rapid.IntRange(0, sc.Lines).Draw(t, "reconnect_at"))
	}
	if rapid.IntRange(0, 5).Draw(t, "armed_read") == 0 {
		sc.ReadErrAt = rapid.IntRange(1, 12).Draw(t, "read_err_at")
	}
	if rapid.IntRange(0, 5).Draw(t, "armed_write") == 0 {
		sc.WriteErrAt = rapid.IntRange(1, 8).Draw(t, "write_err_at")
	}
	sc.ReadErrKind = rapid.IntRange(0, 3).Draw(t, "read_err_kind")
	kinds := []string{"close", "eof", "readerr", "writeerr"}
	if sc.UseCtx {
		kinds = append(kinds, "cancel")
	}
	n := rapid.SampledFrom([]int{1, 1, 2, 2, 2, 3}).Draw(t, "nendings")
	seen := map[string]bool{}
	for i := 0; i < n; i++ {
		k := rapid.SampledFrom(kinds).Draw(t, "ending")
		if !seen[k] {
			seen[k] = true
			sc.Endings = append(sc.Endings, k)
		}
	}
	sc.Closers = rapid.IntRange(1, 4).Draw(t, "closers")
	barrier := rapid.Bool().Draw(t, "barrier")
	for range sc.Endings {
		y := 0
		if !barrier {
			y = rapid.IntRange(0, 40).Draw(t, "stagger")
		}
		sc.Stagger = append(sc.Stagger, y)
	}
	return sc
}

type c06Counters struct {
	register, connected, disconnected atomic.Int32
	regWhileDown, connWhileDown       atomic.Int32 // Connected()==false seen inside REGISTER / CONNECTED handlers
	discWhileUp                       atomic.Int32 // Connected()==true seen inside a DISCONNECTED handler
	regRunning                        atomic.Int32
}

func runC06(sc *c06Scenario) *Violation {
	var cnt c06Counters
	var released atomic.Bool
	tc := newTestClient(cliOpts{Flood: sc.Flood, Tracking: sc.Tracking, CtxDialer: sc.CtxDialer, PingFreq: time.Duration(sc.PingFreqMS) * time.Millisecond})
	defer tc.release()
	var mu sync.Mutex
	var seqs []int
	tc.C.HandleFunc(client.REGISTER, func(c *client.Conn, l *client.Line) {
		cnt.regRunning.Add(1)
		if !c.Connected() && !released.Load() {
			cnt.regWhileDown.Add(1)
		}
		runtime.Gosched()
		cnt.register.Add(1)
		cnt.regRunning.Add(-1)
	})
	tc.C.HandleFunc(client.CONNECTED, func(c *client.Conn, l *client.Line) {
		if !c.Connected() && !released.Load() {
			cnt.connWhileDown.Add(1)
		}
		cnt.connected.Add(1)
	})
	tc.C.HandleFunc(client.DISCONNECTED, func(c *client.Conn, l *client.Line) {
		if c.Connected() {
			cnt.discWhileUp.Add(1)
		}
		cnt.disconnected.Add(1)
	})
	tc.C.HandleFunc("PRIVMSG", func(c *client.Conn, l *client.Line) {
		var n int
		fmt.Sscanf(l.Text(), "%d", &n)
		mu.Lock()
		seqs = append(seqs, n)
		mu.Unlock()
		if sc.Reply && !released.Load() {
			c.Privmsg("#c", "re "+l.Text())
		}
	})
	fail := func(format string, a ...interface{}) *Violation {
		_, dump, _ := connGoroutines(tc.C)
		return &Violation{Property: "C06", Msg: fmt.Sprintf(format, a...), Detail: dump}
	}
	quiesce := func() bool {
		return waitCond(stallTimeout(), func() bool { n, _, _ := connGoroutines(tc.C); return n == 0 })
	}
	defer func() {
		for _, c := range tc.S.Conns() {
			c.EOFNow()
		}
		go tc.C.Close()
	}()

	// ---- negative scenarios ----
	switch sc.Negative {
	case "noserver", "dialerror", "cancelled", "tlsfail":
		ctx, cancel := context.WithCancel(context.Background())
		defer cancel()
		switch sc.Negative {
		case "tlsfail":
			// the dial succeeds, the TLS handshake does not (the peer hangs up)
			tc.Cfg.SSL = true
			tc.Cfg.Timeout = 40 * time.Millisecond
			tc.S.Prepare(func(c *ircsim.Conn) { c.EOF() })
		case "noserver":
			tc.Cfg.Server = ""
		case "dialerror":
			tc.S.FailDials(ircsim.ErrDial)
		case "cancelled":
			cancel()
		}
		err := c06Connect(tc, sc, ctx)
		if err == nil {
			tc.C.Close()
			return fail("Connect (%s) returned nil", sc.Negative)
		}
		time.Sleep(2 * time.Millisecond)
		if tc.C.Connected() {
			return fail("Connected() is true after a failed Connect (%s)", sc.Negative)
		}
		if r, d := cnt.register.Load(), cnt.disconnected.Load(); r != 0 || d != 0 {
			return fail("failed Connect (%s) fired events: REGISTER=%d DISCONNECTED=%d", sc.Negative, r, d)
		}
		if err := tc.C.Close(); err != nil {
			return fail("Close after failed Connect returned %v", err)
		}
		if n, _, _ := connGoroutines(tc.C); n != 0 {
			return fail("failed Connect (%s) left %d goirc goroutines behind", sc.Negative, n)
		}
		if cnt.disconnected.Load() != 0 {
			return fail("Close on a client that never connected fired DISCONNECTED")
		}
		if sc.Negative == "tlsfail" {
			// the application falls back to a plain connection: nothing left over from the failed attempt
			// (a watchdog, a half-open socket) may end it
			tc.Cfg.SSL = false
			tc.S.Prepare(nil)
			if err := tc.C.Connect(); err != nil {
				return fail("plain Connect after a failed TLS attempt: %v", err)
			}
			time.Sleep(3 * tc.Cfg.Timeout)
			// (no PING round trip here: with flood control on and a 5 ms PingFreq the answer would queue up
			// behind seconds of rate-limited keep-alives)
			if !tc.C.Connected() || tc.conn().Closed() {
				return fail("the connection made after a failed TLS attempt was ended %v later although nothing ended it", 3*tc.Cfg.Timeout)
			}
			if r, d := cnt.register.Load(), cnt.disconnected.Load(); r != 1 || d != 0 {
				return fail("after a failed TLS attempt and a successful plain Connect: REGISTER=%d DISCONNECTED=%d", r, d)
			}
		}
		return nil
	case "cancel_in_dial":
		// Either outcome is fine - the Connect fails and nothing at all happens, or it succeeds and the
		// connection (whose context is done) is ended at once in the regular way - but not a mixture.
		ctx, cancel := context.WithCancel(context.Background())
		defer cancel()
		tc.S.Prepare(func(c *ircsim.Conn) { cancel() })
		if sc.Lines%2 == 0 {
			logging.SetLogger(c06SlowLogger{})
			defer logging.SetLogger(nil)
		}
		err := c06Connect(tc, sc, ctx)
		tc.S.Prepare(nil)
		if err != nil {
			time.Sleep(2 * time.Millisecond)
			waitCond(stallTimeout(), func() bool { n, _, _ := connGoroutines(tc.C); return n == 0 })
			if r, d := cnt.register.Load(), cnt.disconnected.Load(); r != 0 || d != 0 || tc.C.Connected() {
				return fail("Connect reported failure (%v: context cancelled during the dial) yet fired events: REGISTER=%d DISCONNECTED=%d Connected()=%v", err, r, d, tc.C.Connected())
			}
			return nil
		}
		if !waitCond(stallTimeout(), func() bool { return cnt.disconnected.Load() >= 1 && !tc.C.Connected() }) {
			return fail("Connect succeeded with a context that was cancelled during the dial, but the connection was never ended (DISCONNECTED=%d)", cnt.disconnected.Load())
		}
		waitCond(stallTimeout(), func() bool { n, _, _ := connGoroutines(tc.C); return n == 0 })
		time.Sleep(2 * time.Millisecond)
		if r, d := cnt.register.Load(), cnt.disconnected.Load(); r != 1 || d != 1 {
			return fail("successful Connect whose context was cancelled during the dial: REGISTER=%d DISCONNECTED=%d, want 1 and 1", r, d)
		}
		return nil
	case "close_unconnected":
		if err := tc.C.Close(); err != nil {
			return fail("Close on a never-connected client returned %v", err)
		}
		if cnt.disconnected.Load() != 0 || cnt.register.Load() != 0 {
			return fail("Close on a never-connected client fired an event")
		}
		return nil
	}

	// ---- positive scenarios ----
	for cycle := 0; cycle < sc.Cycles; cycle++ {
		released.Store(false)
		mu.Lock()
		seqs = nil
		mu.Unlock()
		regBefore, discBefore := cnt.register.Load(), cnt.disconnected.Load()
		armed := sc.ReadErrAt > 0 || sc.WriteErrAt > 0
		tc.S.Prepare(func(c *ircsim.Conn) {
			if sc.ReadErrAt > 0 {
				c.FailReadAtWith(sc.ReadErrAt, ircsim.ReadError(sc.ReadErrKind))
			}
			if sc.WriteErrAt > 0 {
				c.FailWriteAt(sc.WriteErrAt)
			}
		})
		if armed {
			released.Store(true) // a pre-armed fault may begin the disconnect at any time
		}
		ctx, cancel := context.WithCancel(context.Background())
		err := c06Connect(tc, sc, ctx)
		if err != nil {
			cancel()
			return fail("cycle %d: Connect: %v", cycle, err)
		}
		if got := cnt.register.Load() - regBefore; got != 1 || cnt.regRunning.Load() != 0 {
			cancel()
			return fail("cycle %d: when Connect returned REGISTER handlers had completed %d times (running: %d), want exactly 1 completed", cycle, got, cnt.regRunning.Load())
		}
		conn := tc.conn()
		// session
		again := map[int]int{}
		for _, at := range sc.Reconnects {
			again[at]++
		}
		sent := 0
		tryAgain := func(at int) *Violation {
			for k := 0; k < again[at]; k++ {
				if !tc.C.Connected() {
					return nil // already torn down by an armed fault: a new Connect would legitimately succeed
				}
				r0 := cnt.register.Load()
				err := tc.C.Connect()
				if err == nil {
					if armed {
						return &Violation{Property: "C06", Key: "skip"}
					}
					return fail("cycle %d: Connect on a connected client returned nil", cycle)
				}
				if cnt.register.Load() != r0 {
					return fail("cycle %d: refused Connect fired REGISTER", cycle)
				}
			}
			return nil
		}
		for i := 0; i <= sc.Lines; i++ {
			if v := tryAgain(i); v != nil {
				cancel()
				if v.Key == "skip" {
					tc.C.Close()
					quiesce()
					return nil
				}
				return v
			}
			if i == sc.Lines {
				break
			}
			if i == sc.Welcome {
				conn.SendLine(":irc.server 001 me :Welcome me!ident@host")
			}
			conn.SendLine(fmt.Sprintf(":a!b@c PRIVMSG me :%d", i+1))
			sent++
		}
		if !armed {
			// the refused Connects must have left the connection fully working
			if !tc.syncOut(stallTimeout()) {
				cancel()
				return fail("cycle %d: connection stopped answering PING (after %d refused Connect calls)", cycle, len(sc.Reconnects))
			}
			mu.Lock()
			got := append([]int(nil), seqs...)
			mu.Unlock()
			for i := range got {
				if got[i] != i+1 {
					cancel()
					return fail("cycle %d: lines delivered %v, want 1..%d in order", cycle, got, sent)
				}
			}
			if len(got) != sent {
				cancel()
				return fail("cycle %d: %d of %d lines delivered", cycle, len(got), sent)
			}
			if !tc.C.Connected() {
				cancel()
				return fail("cycle %d: Connected() false although nothing ended the connection", cycle)
			}
		}
		// endings
		released.Store(true)
		var wg sync.WaitGroup
		start := make(chan struct{})
		fire := func(y int, f func()) {
			wg.Add(1)
			go func() {
				defer wg.Done()
				<-start
				for i := 0; i < y; i++ {
					runtime.Gosched()
				}
				f()
			}()
		}
		closeErrs := make(chan error, 16)
		for i, e := range sc.Endings {
			y := sc.Stagger[i]
			switch e {
			case "close":
				for k := 0; k < sc.Closers; k++ {
					fire(y+k%2, func() { closeErrs <- tc.C.Close() })
				}
			case "eof":
				fire(y, func() { conn.EOFNow() })
			case "readerr":
				fire(y, func() { conn.FailRead(ircsim.ReadError(sc.ReadErrKind), true) })
			case "writeerr":
				fire(y, func() { conn.FailWrites(errors.New("injected write error")); conn.SendLine("PING :trigger") })
			case "cancel":
				fire(y, cancel)
			}
		}
		close(start)
		done := make(chan struct{})
		go func() { wg.Wait(); close(done) }()
		select {
		case <-done:
		case <-time.After(stallTimeout()):
			cancel()
			return fail("cycle %d: endings %v: a Close call never returned", cycle, sc.Endings)
		}
		if !waitCond(stallTimeout(), func() bool { return cnt.disconnected.Load() > discBefore }) {
			cancel()
			return fail("cycle %d: endings %v (armed read@%d write@%d): DISCONNECTED never delivered", cycle, sc.Endings, sc.ReadErrAt, sc.WriteErrAt)
		}
		if !quiesce() {
			cancel()
			return fail("cycle %d: goirc goroutines still running after DISCONNECTED", cycle)
		}
		cancel()
		time.Sleep(500 * time.Microsecond)
		if got := cnt.disconnected.Load() - discBefore; got != 1 {
			return fail("cycle %d: endings %v x%d closers (armed read@%d write@%d): DISCONNECTED delivered %d times, want exactly once", cycle, sc.Endings, sc.Closers, sc.ReadErrAt, sc.WriteErrAt, got)
		}
		if got := cnt.register.Load() - regBefore; got != 1 {
			return fail("cycle %d: REGISTER delivered %d times for one Connect", cycle, got)
		}
		if tc.C.Connected() {
			return fail("cycle %d: Connected() still true after DISCONNECTED", cycle)
		}
		// Close on a client that is no longer connected does nothing
		if err := tc.C.Close(); err != nil {
			return fail("cycle %d: Close on a disconnected client returned %v", cycle, err)
		}
		if got := cnt.disconnected.Load() - discBefore; got != 1 {
			return fail("cycle %d: Close on a disconnected client fired DISCONNECTED again", cycle)
		}
	}
	if n := cnt.discWhileUp.Load(); n != 0 {
		return fail("Connected() was true inside a DISCONNECTED handler (%d times)", n)
	}
	if n := cnt.regWhileDown.Load(); n != 0 {
		return fail("Connected() was false inside a REGISTER handler although no disconnect had begun")
	}
	if n := cnt.connWhileDown.Load(); n != 0 {
		return fail("Connected() was false inside a CONNECTED handler although no disconnect had begun")
	}
	if sc.Welcome >= 0 && sc.ReadErrAt == 0 && sc.WriteErrAt == 0 && int(cnt.connected.Load()) != sc.Cycles {
		return fail("CONNECTED delivered %d times for %d welcome lines", cnt.connected.Load(), sc.Cycles)
	}
	return nil
}

// c06Connect uses one of the four public ways to connect.
func c06Connect(tc *testClient, sc *c06Scenario, ctx context.Context) error {
	host := tc.Cfg.Server
	switch {
	case sc.ViaTo && sc.UseCtx && host != "":
		return tc.C.ConnectToContext(ctx, host)
	case sc.ViaTo && host != "":
		return tc.C.ConnectTo(host)
	case sc.UseCtx:
		return tc.C.ConnectContext(ctx)
	}
	return tc.C.Connect()
}

func (sc *c06Scenario) classes() (cls []string, nontrivial bool) {
	if sc.Negative != "" {
		return []string{"negative=" + sc.Negative}, true
	}
	for _, e := range sc.Endings {
		cls = append(cls, "ending="+e)
	}
	for i := 0; i < len(sc.Endings); i++ {
		for j := i + 1; j < len(sc.Endings); j++ {
			a, b := sc.Endings[i], sc.Endings[j]
			if a > b {
				a, b = b, a
			}
			cls = append(cls, "pair="+a+"+"+b)
		}
	}
	if sc.ReadErrAt > 0 {
		cls = append(cls, "armed_read_error")
	}
	for _, e := range sc.Endings {
		if e == "readerr" || sc.ReadErrAt > 0 {
			cls = append(cls, fmt.Sprintf("read_error_kind=%d", sc.ReadErrKind%4))
			break
		}
	}
	if sc.WriteErrAt > 0 {
		cls = append(cls, "armed_write_error")
	}
	if len(sc.Reconnects) > 0 {
		cls = append(cls, "connect_while_connected")
	}
	cls = append(cls, fmt.Sprintf("tracking=%v", sc.Tracking), fmt.Sprintf("pingfreq=%d", sc.PingFreqMS), fmt.Sprintf("flood=%v", sc.Flood), fmt.Sprintf("ctx=%v", sc.UseCtx), fmt.Sprintf("via_connect_to=%v", sc.ViaTo))
	hasClose := strings.Contains(strings.Join(sc.Endings, ","), "close")
	nontrivial = len(sc.Endings) >= 2 || (hasClose && sc.Closers >= 2) || len(sc.Reconnects) > 0 || sc.ReadErrAt > 0 || sc.WriteErrAt > 0
	return uniqStrings(cls), nontrivial
}

func TestC06(t *testing.T) {
	col := evid.New("C06", "configuration (tracking, PingFreq 0/5ms/3min, flood control, Connect vs ConnectContext, dialer with/without context) x session (0..30 lines, optional 001, replying handlers, Connect called again 0..3 times at drawn points) x ending (non-empty subset of Close from 1..4 goroutines / EOF / read error / write error / context cancellation released from a barrier or staggered; read/write faults armed at the k-th call) and negative scenarios (no server, dial error, cancelled context, Close when never connected); non-trivial = >=2 coinciding endings or closers, an armed fault, a refused Connect, or a negative scenario; distinct by scenario")
	defer finish(t, col)
	rapid.Check(t, func(t *rapid.T) {
		sc := genC06(t)
		journal(sc)
		v := runC06(sc)
		cls, nt := sc.classes()
		b, _ := json.Marshal(sc)
		col.Case(string(b), nt, cls...)
		col.Sample(sc)
		if v != nil {
			failRapid(t, "TestC06", v, sc)
		}
	})
}

func TestC06_Replay(t *testing.T) {
	var sc c06Scenario
	loadReplay(t, &sc)
	n := envInt("VERIF_REPLAY_RUNS", 100)
	for i := 0; i < n; i++ {
		if v := runC06(&sc); v != nil {
			t.Fatalf("REPRODUCED (run %d of %d): %s", i+1, n, v.Msg)
		}
	}
}

package props

import (
	"encoding/json"
	"fmt"
	"sort"
	"strings"
	"testing"
	"time"

	"verifharness/evid"
	"verifharness/model"

	"github.com/fluffle/goirc/client"
	"github.com/fluffle/goirc/state"
	"pgregory.net/rapid"
)

// ---------------------------------------------------------------------------
// C13 oracle 1: conformant sessions from the model IRC network
// ---------------------------------------------------------------------------

type netEvent struct {
	Kind    string             `json:"kind"` // adduser, join, part, quit, kick, nick, topic, mode, umode
	U       int                `json:"u"`
	V       int                `json:"v"`
	Ch      string             `json:"ch,omitempty"`
	S       string             `json:"s,omitempty"`
	Split   int                `json:"split,omitempty"`
	B1      bool               `json:"b1,omitempty"`
	B2      bool               `json:"b2,omitempty"`
	Changes []model.ModeChange `json:"changes,omitempty"`
	NoWho   bool               `json:"no_who,omitempty"` // the server does not answer the WHO requests this event triggers
	Press   bool               `json:"press,omitempty"`  // the client's output queue is full (server not reading, application sending) when the lines arrive
}

type c13Scenario struct {
	Events []netEvent `json:"events"`
	// LateTracking: the client connects with state tracking off, sees its nick changed by the server,
	// and only then enables tracking (allowed "while the client is not joined to any channels")
	LateTracking bool `json:"late_tracking"`
	// OldTimes: every line carries a server-time tag from years ago
	OldTimes bool `json:"old_times"`
	// Caps: "" capability negotiation off; "offered": negotiation on, the server lists capabilities
	// (extended-join, multi-prefix, userhost-in-names, chghost ...) of which the client wants none, so none
	// is enabled and the server talks plain RFC 1459; "tags": the client wants and gets server-time and
	// account-tag, which only add tags to lines
	Caps string `json:"caps,omitempty"`
}

var c13Offered = "account-notify away-notify extended-join multi-prefix userhost-in-names chghost server-time account-tag cap-notify invite-notify setname"

// c13Negotiate plays the server's part of capability negotiation on a fresh connection.
func c13Negotiate(tc *testClient, sc *c13Scenario) *Violation {
	if sc.Caps == "" {
		return nil
	}
	conn := tc.conn()
	if !conn.WaitWritten(func(w string) bool { return strings.Contains(w, "CAP LS") }, stallTimeout()) {
		return violationf("C13", "capability negotiation enabled but the client sent no CAP LS")
	}
	conn.SendLine(":irc.example.net CAP * LS :" + c13Offered)
	if !conn.WaitWritten(func(w string) bool { return strings.Contains(w, "CAP REQ") || strings.Contains(w, "CAP END") }, stallTimeout()) {
		return violationf("C13", "no answer to the server's capability list")
	}
	ls, _ := SplitCRLF(conn.Written())
	for _, l := range ls {
		if strings.HasPrefix(l, "CAP REQ :") {
			conn.SendLine(":irc.example.net CAP me ACK :" + l[len("CAP REQ :"):])
		}
	}
	if !conn.WaitWritten(func(w string) bool { return strings.Contains(w, "CAP END") }, stallTimeout()) {
		return violationf("C13", "capability negotiation did not end")
	}
	return nil
}

var c13Chans = []string{"#a", "#b", "&c", "#D"}
var c13NickPool = []string{"ann", "bob", "cy", "Dee", "eve", "fox", "ann_", "bob2", "me_", "x"}

// applyNetEvent mutates the network and returns the lines for the client.
func applyNetEvent(n *model.Net, e netEvent) []string {
	var lines []string
	switch e.Kind {
	case "adduser":
		n.AddUser(e.S, "id"+e.S, "host."+e.S, "Real "+e.S)
	case "join":
		lines = n.Join(e.U, e.Ch, e.Split, e.B1, e.B2)
	case "part":
		lines = n.Part(e.U, e.Ch, e.S)
	case "quit":
		lines = n.Quit(e.U, e.S)
	case "kick":
		lines = n.Kick(e.U, e.V, e.Ch, e.S)
	case "nick":
		lines = n.Nick(e.U, e.S, e.B1)
	case "topic":
		lines = n.SetTopic(e.U, e.Ch, e.S)
	case "mode":
		lines = n.Mode(e.U, e.Ch, e.Changes)
	case "umode":
		lines = []string{":" + n.MeNick() + " MODE " + n.MeNick() + " :" + e.S}
	case "chghost":
		n.Users[e.U].Host = e.S
		n.Users[e.U].Ident = "c" + n.Users[e.U].Ident
	case "appnames":
		lines = []string{"\x00NAMES " + e.Ch} // not a line: the runner sends NAMES <channel> for the application and serves it
	case "appwho":
		lines = []string{"\x00WHO " + e.Ch} // not a line: the runner calls conn.Who(channel) and serves the request
	case "toggle":
		// (the runner of C13 switches tracking off before these lines and on again after them)
		if e.S != "" {
			lines = n.Nick(n.Me, e.S, e.B1)
		} else {
			lines = []string{":" + n.Server + " NOTICE " + n.MeNick() + " :nothing happens"}
		}
	case "reconnect":
		n.ClientReconnected()
		lines = []string{"\x00RECONNECT"} // not a line: the runner closes the connection and connects again
	}
	n.RefreshViews()
	return lines
}

func genNetEvent(t *rapid.T, n *model.Net) (netEvent, bool) {
	online := func(pred func(int) bool) []int {
		var ids []int
		for i, u := range n.Users {
			if u.Online && pred(i) {
				ids = append(ids, i)
			}
		}
		return ids
	}
	chansOf := func(u int) []string {
		var cs []string
		for name, c := range n.Chans {
			if _, ok := c.Members[u]; ok {
				cs = append(cs, name)
			}
		}
		sort.Strings(cs)
		return cs
	}
	kinds := []string{"join", "join", "join", "clientjoin", "clientjoin", "part", "quit", "kick", "nick", "topic", "mode", "mode", "mode", "clientpart", "adduser", "umode", "clientnick", "join", "mode", "part", "reconnect", "toggle", "chghost", "appwho", "appnames"}
	switch k := rapid.SampledFrom(kinds).Draw(t, "event"); k {
	case "reconnect":
		return netEvent{Kind: "reconnect"}, true
	case "chghost":
		// a user's visible ident@host changes without any line the client could see (a services cloak);
		// the client learns of it with the next WHO reply
		us := online(func(i int) bool { return i != n.Me })
		if len(us) == 0 {
			return netEvent{}, false
		}
		return netEvent{Kind: "chghost", U: rapid.SampledFrom(us).Draw(t, "u"), S: rapid.SampledFrom([]string{"cloak.example", "staff.example", "10.0.0.7"}).Draw(t, "newhost")}, true
	case "appnames":
		// the application asks for a channel's NAMES list again (the reply shows, once more, each member's
		// highest privilege only - it adds to what the client knows, it takes nothing away)
		var cs []string
		for _, ch := range c13Chans {
			if n.ClientOn(ch) {
				cs = append(cs, ch)
			}
		}
		if len(cs) == 0 {
			return netEvent{}, false
		}
		return netEvent{Kind: "appnames", Ch: rapid.SampledFrom(cs).Draw(t, "ch"), Split: rapid.IntRange(1, 3).Draw(t, "names_split"), B1: rapid.Bool().Draw(t, "names_trailing_space")}, true
	case "appwho":
		// the application refreshes its picture of a channel: conn.Who(channel)
		var cs []string
		for _, ch := range c13Chans {
			if n.ClientOn(ch) {
				cs = append(cs, ch)
			}
		}
		if len(cs) == 0 {
			return netEvent{}, false
		}
		return netEvent{Kind: "appwho", Ch: rapid.SampledFrom(cs).Draw(t, "ch")}, true
	case "toggle":
		// the application switches tracking off and on again on the live client - allowed while it is on
		// no channel - and the server may rename the client in between
		for _, ch := range c13Chans {
			if n.ClientOn(ch) {
				return netEvent{}, false
			}
		}
		e := netEvent{Kind: "toggle", U: n.Me}
		if rapid.Bool().Draw(t, "renamed_while_off") {
			var free []string
			for _, nk := range []string{"me", "Me", "me2", "me_"} {
				if !n.NickInUse(nk) {
					free = append(free, nk)
				}
			}
			if len(free) > 0 {
				e.S = rapid.SampledFrom(free).Draw(t, "newnick")
			}
		}
		return e, true
	case "adduser":
		if len(n.Users) >= 7 {
			return netEvent{}, false
		}
		var free []string
		for _, nk := range c13NickPool {
			if !n.NickInUse(nk) {
				free = append(free, nk)
			}
		}
		if len(free) == 0 {
			return netEvent{}, false
		}
		return netEvent{Kind: "adduser", S: rapid.SampledFrom(free).Draw(t, "newnick")}, true
	case "clientjoin":
		var cs []string
		for _, c := range c13Chans {
			if !n.ClientOn(c) {
				cs = append(cs, c)
			}
		}
		if len(cs) == 0 {
			return netEvent{}, false
		}
		return netEvent{Kind: "join", U: n.Me, Ch: rapid.SampledFrom(cs).Draw(t, "ch"), Split: rapid.IntRange(1, 3).Draw(t, "names_split"),
			B1: rapid.Bool().Draw(t, "names_trailing_space"), B2: rapid.Bool().Draw(t, "join_colon"), NoWho: rapid.IntRange(0, 6).Draw(t, "no_who") == 3, Press: rapid.IntRange(0, 4).Draw(t, "press") == 2}, true
	case "join":
		us := online(func(i int) bool { return i != n.Me })
		if len(us) == 0 {
			return netEvent{}, false
		}
		u := rapid.SampledFrom(us).Draw(t, "u")
		var cs []string
		for _, c := range c13Chans {
			if !n.On(c, u) {
				cs = append(cs, c)
			}
		}
		if len(cs) == 0 {
			return netEvent{}, false
		}
		return netEvent{Kind: "join", U: u, Ch: rapid.SampledFrom(cs).Draw(t, "ch"), B2: rapid.Bool().Draw(t, "join_colon"), NoWho: rapid.IntRange(0, 6).Draw(t, "no_who") == 3}, true
	case "part", "clientpart":
		u := n.Me
		if k == "part" {
			us := online(func(i int) bool { return i != n.Me && len(chansOf(i)) > 0 })
			if len(us) == 0 {
				return netEvent{}, false
			}
			u = rapid.SampledFrom(us).Draw(t, "u")
		}
		cs := chansOf(u)
		if len(cs) == 0 {
			return netEvent{}, false
		}
		return netEvent{Kind: "part", U: u, Ch: rapid.SampledFrom(cs).Draw(t, "ch"), S: rapid.SampledFrom([]string{"", "bye", "see you later", "gone :( for now"}).Draw(t, "msg")}, true
	case "quit":
		us := online(func(i int) bool { return i != n.Me })
		if len(us) == 0 {
			return netEvent{}, false
		}
		return netEvent{Kind: "quit", U: rapid.SampledFrom(us).Draw(t, "u"), S: rapid.SampledFrom([]string{"Quit: bye", "Ping timeout: 240 seconds", ""}).Draw(t, "msg")}, true
	case "kick":
		var cs []string
		for name, c := range n.Chans {
			if len(c.Members) >= 1 {
				cs = append(cs, name)
			}
		}
		sort.Strings(cs)
		if len(cs) == 0 {
			return netEvent{}, false
		}
		ch := rapid.SampledFrom(cs).Draw(t, "ch")
		ms := n.SortedMembers(n.Chans[ch])
		return netEvent{Kind: "kick", U: rapid.SampledFrom(ms).Draw(t, "by"), V: rapid.SampledFrom(ms).Draw(t, "victim"), Ch: ch, S: rapid.SampledFrom([]string{"", "out", "bad behaviour"}).Draw(t, "reason")}, true
	case "nick", "clientnick":
		u := n.Me
		if k == "nick" {
			us := online(func(i int) bool { return i != n.Me })
			if len(us) == 0 {
				return netEvent{}, false
			}
			u = rapid.SampledFrom(us).Draw(t, "u")
		}
		var free []string
		for _, nk := range append(append([]string{}, c13NickPool...), "me", "Me", "me2") {
			if !n.NickInUse(nk) {
				free = append(free, nk)
			}
		}
		if len(free) == 0 {
			return netEvent{}, false
		}
		return netEvent{Kind: "nick", U: u, S: rapid.SampledFrom(free).Draw(t, "newnick"), B1: rapid.Bool().Draw(t, "nick_colon")}, true
	case "topic":
		var cs []string
		for name := range n.Chans {
			cs = append(cs, name)
		}
		sort.Strings(cs)
		if len(cs) == 0 {
			return netEvent{}, false
		}
		ch := rapid.SampledFrom(cs).Draw(t, "ch")
		ms := n.SortedMembers(n.Chans[ch])
		return netEvent{Kind: "topic", U: rapid.SampledFrom(ms).Draw(t, "by"), Ch: ch, S: rapid.SampledFrom([]string{"", "new topic", "topic: with colon", " lead", "rules :) be nice", "a :: b", ":starts with colon", "trailing space "}).Draw(t, "topic")}, true
	case "umode":
		return netEvent{Kind: "umode", S: rapid.SampledFrom([]string{"+i", "+iw", "-i", "+x-w", "+B"}).Draw(t, "umode")}, true
	case "mode":
		var cs []string
		for name := range n.Chans {
			cs = append(cs, name)
		}
		sort.Strings(cs)
		if len(cs) == 0 {
			return netEvent{}, false
		}
		ch := rapid.SampledFrom(cs).Draw(t, "ch")
		c := n.Chans[ch]
		ms := n.SortedMembers(c)
		e := netEvent{Kind: "mode", U: rapid.SampledFrom(ms).Draw(t, "by"), Ch: ch}
		if rapid.IntRange(0, 9).Draw(t, "listmode") == 0 {
			// list modes the tracker does not model, as a stand-alone line
			e.Changes = []model.ModeChange{{On: rapid.Bool().Draw(t, "ban_on"), Letter: rapid.SampledFrom([]byte{'b', 'e', 'I'}).Draw(t, "list_letter"), Arg: "*!*@bad.host"}}
			return e, true
		}
		k := rapid.IntRange(1, 4).Draw(t, "nchanges")
		keyRemoved := false
		for i := 0; i < k; i++ {
			mc := model.ModeChange{On: rapid.Bool().Draw(t, "on")}
			kind := rapid.IntRange(0, 9).Draw(t, "mode_kind")
			switch {
			case kind <= 2 && rapid.IntRange(0, 3).Draw(t, "foreign_mode") == 0:
				// channel modes of particular ircds that the tracker does not model: flags without an
				// argument in either direction (c C R M S T u N g), and modes whose argument exists only when
				// they are set (j f L J), generated as removals only - so no argument here either. They
				// must leave the rest of the line's changes, and their arguments, alone.
				if rapid.Bool().Draw(t, "foreign_set_only") {
					mc.On = false
					mc.Letter = rapid.SampledFrom([]byte{'j', 'f', 'L', 'J'}).Draw(t, "foreign_letter")
				} else {
					mc.Letter = rapid.SampledFrom([]byte{'c', 'C', 'R', 'M', 'S', 'T', 'u', 'N', 'g'}).Draw(t, "foreign_flag")
				}
			case kind <= 2:
				mc.Letter = rapid.SampledFrom(model.FlagLetters).Draw(t, "flag")
			case kind == 3 && !keyRemoved && envInt("VERIF_C13_NO_MIXED_LIST", 0) == 0:
				// ban / exception / invite masks (RFC 2811 list modes) mixed with the other letters
				mc.Letter = rapid.SampledFrom([]byte{'b', 'e', 'I'}).Draw(t, "list_letter")
				mc.Arg = rapid.SampledFrom([]string{"*!*@bad.host", "ann!*@*", "*!*bob@*"}).Draw(t, "mask")
			case kind <= 5 && !keyRemoved:
				mc.Letter = 'k'
				if mc.On {
					mc.Arg = rapid.SampledFrom([]string{"key", "s3cr3t", "k2"}).Draw(t, "key")
				} else {
					// "-k key": removing a key and then taking further arguments is outside the claim, so
					// nothing argument-taking follows it
					mc.Arg = c.Key
					if mc.Arg == "" {
						mc.Arg = "*"
					}
					keyRemoved = true
				}
			case kind == 6 && !keyRemoved:
				mc.Letter = 'l'
				if mc.On {
					mc.Arg = rapid.SampledFrom([]string{"5", "10", "250"}).Draw(t, "limit")
				}
			case !keyRemoved:
				mc.Letter = rapid.SampledFrom(model.PrivLetters).Draw(t, "priv")
				mc.User = rapid.SampledFrom(ms).Draw(t, "priv_user")
			default:
				mc.Letter = rapid.SampledFrom(model.FlagLetters).Draw(t, "flag")
			}
			e.Changes = append(e.Changes, mc)
		}
		return e, true
	}
	return netEvent{}, false
}

func genC13(t *rapid.T) *c13Scenario {
	sc := &c13Scenario{LateTracking: rapid.IntRange(0, 3).Draw(t, "late_tracking") == 0, OldTimes: rapid.IntRange(0, 3).Draw(t, "old_times") == 0,
		Caps: rapid.SampledFrom([]string{"", "", "offered", "tags"}).Draw(t, "caps")}
	n := model.NewNet("me")
	add := func(e netEvent) {
		sc.Events = append(sc.Events, e)
		applyNetEvent(n, e)
	}
	if sc.LateTracking {
		// (event 0) the server renames the still untracked client; tracking is enabled right after it
		add(netEvent{Kind: "nick", U: 0, S: "me2", B1: true})
	}
	// a populated network before the client does anything
	nu := rapid.IntRange(2, 5).Draw(t, "nusers")
	for i := 0; i < nu; i++ {
		add(netEvent{Kind: "adduser", S: c13NickPool[i]})
	}
	steps := rapid.IntRange(5, 60).Draw(t, "nevents")
	for i := 0; i < steps; i++ {
		if e, ok := genNetEvent(t, n); ok {
			add(e)
		}
	}
	return sc
}

// expectedTrackerDiff compares the tracker with what the network model says
// the client must know; "" when they agree.
func expectedTrackerDiff(st state.Tracker, n *model.Net, nickUniverse map[string]bool, cmeName string) string {
	me := st.Me()
	if me == nil {
		return "StateTracker().Me() is nil"
	}
	if me.Nick != n.MeNick() {
		return fmt.Sprintf("Me().Nick = %q, server uses %q", me.Nick, n.MeNick())
	}
	// channels
	var onChans []string
	for _, ch := range c13Chans {
		got := st.GetChannel(ch)
		if !n.ClientOn(ch) {
			if got != nil {
				return fmt.Sprintf("channel %s is tracked but the client is not on it: %s", ch, fmtChan(got))
			}
			if _, ok := me.Channels[ch]; ok {
				return fmt.Sprintf("Me().Channels lists %s but the client is not on it", ch)
			}
			continue
		}
		onChans = append(onChans, ch)
		if got == nil {
			return fmt.Sprintf("client is on %s but the tracker has no such channel", ch)
		}
		if _, ok := me.Channels[ch]; !ok {
			return fmt.Sprintf("client is on %s but Me().Channels lacks it", ch)
		}
		c := n.Chans[ch]
		if got.Topic != c.Topic {
			return fmt.Sprintf("%s: topic %q, truth %q", ch, got.Topic, c.Topic)
		}
		want := state.ChanMode{Private: c.Flags['p'], Secret: c.Flags['s'], ProtectedTopic: c.Flags['t'], NoExternalMsg: c.Flags['n'], Moderated: c.Flags['m'],
			InviteOnly: c.Flags['i'], OperOnly: c.Flags['O'], SSLOnly: c.Flags['z'], Registered: c.Flags['r'], AllSSL: c.Flags['Z'], Key: c.Key, Limit: c.Limit}
		if c.ModesKnown && (got.Modes == nil || *got.Modes != want) {
			return fmt.Sprintf("%s: modes %s (key %q limit %d), truth %s (key %q limit %d)", ch, got.Modes.String(), got.Modes.Key, got.Modes.Limit, want.String(), want.Key, want.Limit)
		}
		if len(got.Nicks) != len(c.Members) {
			return fmt.Sprintf("%s: tracked members %v, truth has %d members", ch, fmtChan(got), len(c.Members))
		}
		for u, m := range c.Members {
			nk := n.Users[u].Nick
			gp, ok := got.Nicks[nk]
			if !ok {
				return fmt.Sprintf("%s: member %q missing from the tracked channel %s", ch, nk, fmtChan(got))
			}
			wp := state.ChanPrivs{Owner: m.Seen['q'], Admin: m.Seen['a'], Op: m.Seen['o'], HalfOp: m.Seen['h'], Voice: m.Seen['v']}
			if *gp != wp {
				return fmt.Sprintf("%s: privileges of %q are %s, the protocol revealed %s", ch, nk, gp.String(), wp.String())
			}
			ip, iok := st.IsOn(ch, nk)
			if !iok || *ip != wp {
				return fmt.Sprintf("IsOn(%s,%q) = %s", ch, nk, fmtPrivs(ip, iok))
			}
		}
	}
	if len(me.Channels) != len(onChans) {
		return fmt.Sprintf("Me().Channels has %d entries, client is on %v", len(me.Channels), onChans)
	}
	// users
	current := map[string]int{}
	for i, u := range n.Users {
		if u.Online {
			current[u.Nick] = i
		}
	}
	for nk := range nickUniverse {
		got := st.GetNick(nk)
		i, online := current[nk]
		tracked := online && (i == n.Me || n.Shares(i))
		if !tracked {
			if got != nil {
				return fmt.Sprintf("nick %q is tracked (%s) but shares no channel with the client", nk, fmtNick(got))
			}
			continue
		}
		if got == nil {
			return fmt.Sprintf("user %q shares a channel with the client but is not tracked", nk)
		}
		u := n.Users[i]
		if i == n.Me {
			if got.Ident != u.Ident || got.Host != u.Host || got.Name != cmeName {
				return fmt.Sprintf("own entry is %s, the welcome line said %s@%s", fmtNick(got), u.Ident, u.Host)
			}
			continue
		}
		if got.Ident != u.VIdent || got.Host != u.VHost || got.Name != u.VName {
			return fmt.Sprintf("user %q tracked as %q@%q (%q), the protocol revealed %q@%q (%q)", nk, got.Ident, got.Host, got.Name, u.VIdent, u.VHost, u.VName)
		}
		wantChans := 0
		for _, ch := range onChans {
			if n.On(ch, i) {
				wantChans++
				if _, ok := got.Channels[ch]; !ok {
					return fmt.Sprintf("user %q is on %s but its tracked entry lacks the channel", nk, ch)
				}
			}
		}
		if len(got.Channels) != wantChans {
			return fmt.Sprintf("user %q tracked on %d channels, shares %d with the client", nk, len(got.Channels), wantChans)
		}
	}
	return ""
}

func runC13(sc *c13Scenario) *Violation {
	tc := newTestClient(cliOpts{Flood: true, Tracking: !sc.LateTracking, Nick: "me", Configure: func(cfg *client.Config) {
		if sc.Caps != "" {
			cfg.EnableCapabilityNegotiation = true
		}
		if sc.Caps == "tags" {
			cfg.Capabilites = []string{"server-time", "account-tag"}
		}
	}})
	defer tc.shutdown()
	if err := tc.connect(); err != nil {
		return violationf("C13", "connect: %v", err)
	}
	if v := c13Negotiate(tc, sc); v != nil {
		return v
	}
	conn := tc.conn()
	n := model.NewNet("me")
	conn.SendLine(fmt.Sprintf(":%s 001 me :Welcome to the network %s!%s@%s", n.Server, "me", n.Users[0].Ident, n.Users[0].Host))
	if !tc.syncOut(stallTimeout()) {
		return violationf("C13", "welcome not processed")
	}
	pos := len(conn.Written())
	universe := map[string]bool{"me": true, "Me": true, "me2": true}
	for _, nk := range c13NickPool {
		universe[nk] = true
	}
	st := tc.C.StateTracker()
	timeTag := ""
	if sc.OldTimes {
		timeTag = "@time=2011-10-19T16:40:51.620Z "
	}
	var history []string
	for ei, e := range sc.Events {
		if sc.LateTracking && ei == 1 {
			tc.C.EnableStateTracking()
			st = tc.C.StateTracker()
		}
		lines := applyNetEvent(n, e)
		if e.Kind == "toggle" && st != nil {
			tc.C.DisableStateTracking()
			for _, l := range lines {
				conn.SendLine(timeTag + l)
				history = append(history, "<tracking off> "+l)
			}
			if !tc.syncOut(stallTimeout()) {
				return violationf("C13", "event %d: client stopped answering while tracking was off", ei)
			}
			pos = len(conn.Written())
			tc.C.EnableStateTracking()
			st = tc.C.StateTracker()
			history = append(history, "<tracking on again>")
			lines = nil
			if d := expectedTrackerDiff(st, n, universe, "Real Name"); d != "" {
				return &Violation{Property: "C13", Msg: fmt.Sprintf("after event %d (tracking switched off and on again on no channel): %s", ei, d), Detail: map[string]interface{}{"last_lines": history, "tracker": st.String()}}
			}
		}
		if e.Kind == "reconnect" {
			// the same client disconnects and registers again: the tracker must start from the client alone
			done := make(chan struct{})
			go func() { tc.C.Close(); close(done) }()
			select {
			case <-done:
			case <-time.After(stallTimeout()):
				return violationf("C13", "event %d: Close did not return", ei)
			}
			waitCond(stallTimeout(), func() bool { k, _, _ := connGoroutines(tc.C); return k == 0 })
			if err := tc.connect(); err != nil {
				return violationf("C13", "event %d: reconnect: %v", ei, err)
			}
			if v := c13Negotiate(tc, sc); v != nil {
				return v
			}
			conn = tc.conn()
			pos = 0
			lines = []string{fmt.Sprintf(":%s 001 %s :Welcome back %s!%s@%s", n.Server, n.MeNick(), n.MeNick(), n.Users[0].Ident, n.Users[0].Host)}
			history = append(history, "<client reconnects>")
		}
		if e.Kind == "appnames" {
			if st == nil {
				continue
			}
			tc.C.Raw("NAMES " + e.Ch)
			history = append(history, "<application sends NAMES "+e.Ch+">")
			lines = []string{"PING :appnames"}
		}
		if e.Kind == "appwho" {
			if st == nil {
				continue
			}
			tc.C.Who(e.Ch)
			history = append(history, "<application calls Who("+e.Ch+")>")
			lines = []string{"PING :appwho"} // (something to send, so that the request is on the wire before it is served)
		}
		var pressDone chan struct{}
		if e.Press && len(lines) > 0 && e.Kind != "reconnect" {
			// the server has stopped reading for a moment and the application keeps sending: the queue
			// is full when these lines are handled, whatever the client wants to ask has to wait its turn
			conn.Gate(true)
			pressDone = make(chan struct{})
			go func() {
				defer close(pressDone)
				for k := 0; k < 40; k++ {
					tc.C.Raw(fmt.Sprintf("FILL %d", k))
				}
			}()
			time.Sleep(2 * time.Millisecond)
			history = append(history, "<output queue full>")
		}
		for _, l := range lines {
			conn.SendLine(timeTag + l)
			history = append(history, l)
		}
		if pressDone != nil {
			time.Sleep(3 * time.Millisecond)
			conn.Gate(false)
			select {
			case <-pressDone:
			case <-time.After(stallTimeout()):
				return violationf("C13", "event %d: the application's sends never returned after the server resumed reading", ei)
			}
		}
		if len(lines) == 0 {
			continue
		}
		if !tc.syncOut(stallTimeout()) {
			return violationf("C13", "event %d: client stopped answering", ei)
		}
		// serve what the client asked for
		w := conn.Written()
		reqs, _ := SplitCRLF(w[pos:])
		pos = len(w)
		var replies []string
		for _, r := range reqs {
			f := strings.Fields(r)
			switch {
			case len(f) == 2 && f[0] == "MODE":
				replies = append(replies, n.ReplyMode(f[1])...)
			case len(f) == 2 && f[0] == "WHO" && !e.NoWho:
				replies = append(replies, n.ReplyWho(f[1])...)
			case len(f) == 2 && f[0] == "NAMES":
				replies = append(replies, n.ReplyNames(f[1], e.Split, e.B1)...)
			}
		}
		if len(replies) > 0 {
			for _, l := range replies {
				conn.SendLine(timeTag + l)
				history = append(history, l)
			}
			if !tc.syncOut(stallTimeout()) {
				return violationf("C13", "event %d: client stopped answering after replies", ei)
			}
			pos = len(conn.Written())
		}
		if st == nil {
			continue // tracking not enabled yet
		}
		if e.Kind == "join" && e.U == n.Me {
			// a channel's modes reach a client only in answer to MODE <channel>: a tracker that is to hold
			// them has to have asked by now (however busy the output queue was)
			if c, ok := n.Chans[e.Ch]; ok && !c.ModesKnown {
				h := history
				if len(h) > 12 {
					h = h[len(h)-12:]
				}
				return &Violation{Property: "C13", Msg: fmt.Sprintf("after event %d (the client joined %s): the client never asked for the channel's modes (no MODE %s request), so the tracker cannot hold them", ei, e.Ch, e.Ch), Detail: map[string]interface{}{"last_lines": h}}
			}
		}
		if d := expectedTrackerDiff(st, n, universe, "Real Name"); d != "" {
			h := history
			if len(h) > 12 {
				h = h[len(h)-12:]
			}
			return &Violation{Property: "C13", Msg: fmt.Sprintf("after event %d (%s): %s", ei, e.Kind, d), Detail: map[string]interface{}{"last_lines": h, "tracker": st.String()}}
		}
	}
	return nil
}

func (sc *c13Scenario) classes() (cls []string, nontrivial bool) {
	n := model.NewNet("me")
	joined, otherChange, gc := false, false, false
	for _, e := range sc.Events {
		wasOn := map[string]bool{}
		for _, c := range c13Chans {
			wasOn[c] = n.ClientOn(c)
		}
		tracked := 0
		for i := range n.Users {
			if i != n.Me && n.Users[i].Online && n.Shares(i) {
				tracked++
			}
		}
		lines := applyNetEvent(n, e)
		if len(lines) == 0 {
			continue
		}
		k := e.Kind
		if e.U == n.Me && (k == "join" || k == "part" || k == "nick") {
			k = "client" + k
		}
		if k == "kick" && e.V == n.Me {
			k = "clientkicked"
		}
		cls = append(cls, "event="+k)
		if k == "clientjoin" {
			if joined {
				cls = append(cls, "rejoin_or_second_channel")
			}
			joined = true
			if e.Split > 1 {
				cls = append(cls, "multiline_names")
			}
		} else if joined && e.U != n.Me && (k == "join" || k == "part" || k == "quit" || k == "kick") {
			otherChange = true
		}
		after := 0
		for i := range n.Users {
			if i != n.Me && n.Users[i].Online && n.Shares(i) {
				after++
			}
		}
		if after < tracked && (k == "clientpart" || k == "clientkicked" || k == "part" || k == "kick") {
			gc = true
			cls = append(cls, "gc_event")
		}
		if e.NoWho {
			cls = append(cls, "who_unanswered")
		}
	}
	if sc.Caps != "" {
		cls = append(cls, "capabilities_"+sc.Caps)
	}
	return uniqStrings(cls), joined && otherChange && gc
}

func TestC13(t *testing.T) {
	col := evid.New("C13", "sessions generated by a model IRC network (3..7 users, 4 channels, every event kind incl. events the client cannot see, multi-line NAMES, colon/no-colon forms, list modes as stand-alone lines, WHO requests answered or not, NAMES asked for again by the application, capability negotiation off / on with nothing wanted / on with tag-only capabilities) run in lock-step against a tracked client; oracle: tracker == ground truth + revealed view at every step; non-trivial = client join followed by another user's membership change and a garbage-collecting event; distinct by session")
	defer finish(t, col)
	rapid.Check(t, func(t *rapid.T) {
		sc := genC13(t)
		journal(sc)
		v := runC13(sc)
		cls, nt := sc.classes()
		b, _ := json.Marshal(sc)
		col.Case(string(b), nt, cls...)
		if len(sc.Events) <= 12 {
			col.Sample(sc)
		}
		if v != nil {
			failRapid(t, "TestC13", v, sc)
		}
	})
}

func TestC13_Replay(t *testing.T) {
	var sc c13Scenario
	loadReplay(t, &sc)
	if v := runC13(&sc); v != nil {
		b, _ := json.Marshal(v.Detail)
		t.Fatalf("REPRODUCED %s\n%s", v.Msg, b)
	}
}

var _ = client.PING

// ---------------------------------------------------------------------------
// C13 oracle 2: arbitrary (non-conformant) lines keep the tracker's invariants
// ---------------------------------------------------------------------------

type c13Arb struct {
	Lines []Q `json:"lines"`
}

var arbNicks = []string{"me", "me", "a", "a", "b", "c", "", "A", "me2"}
var arbChans = []string{"#c", "#c", "#d", "#d", "&e", "", "#C"}

func genArbLine(t *rapid.T) string {
	nick := func() string { return rapid.SampledFrom(arbNicks).Draw(t, "nick") }
	ch := func() string { return rapid.SampledFrom(arbChans).Draw(t, "chan") }
	src := func() string {
		switch rapid.IntRange(0, 5).Draw(t, "src") {
		case 0:
			return ":irc.server "
		case 1:
			return ""
		case 2:
			return ":" + nick() + " "
		}
		return ":" + nick() + "!u@h "
	}
	tok := func() string {
		switch rapid.IntRange(0, 7).Draw(t, "tok") {
		case 0, 1:
			return nick()
		case 2, 3:
			return ch()
		case 4:
			return rapid.SampledFrom([]string{"+o", "-o", "+v", "+k", "-k", "+l", "+ov", "+b", "+nt", "-l", "+o-v+k", "+i"}).Draw(t, "modestr")
		case 5:
			return rapid.SampledFrom([]string{"=", "*", "H", "H@", "G*", "5", "key"}).Draw(t, "misc")
		}
		return rapid.SampledFrom([]string{"@a", "+b", "~me", "%c", "&A", "@", "+"}).Draw(t, "prefixed")
	}
	// mostly plausible shapes with wrong / odd names, sometimes fully random parameter lists
	switch rapid.IntRange(0, 11).Draw(t, "shape") {
	case 0:
		return ":" + nick() + "!u@h JOIN " + ch()
	case 1:
		return ":" + nick() + "!u@h PART " + ch()
	case 2:
		return src() + "KICK " + ch() + " " + nick() + " :r"
	case 3:
		return ":" + nick() + "!u@h QUIT :bye"
	case 4:
		return ":" + nick() + "!u@h NICK :" + nick()
	case 5:
		names := genUnits(t, "names", []string{"me", "a", "b", "c", "@a", "+b", "~me", "@", "A", " ", "%c"}, 0, 6)
		return ":irc.server 353 me = " + ch() + " :" + strings.TrimSpace(strings.ReplaceAll(names, "", " "))
	case 6:
		return src() + "MODE " + rapid.SampledFrom([]string{"#c", "#d", "me", "a", ""}).Draw(t, "modetarget") + " " + tok() + " " + tok() + " " + tok()
	case 7:
		return ":irc.server 352 me " + ch() + " id host srv " + nick() + " H :0 name"
	case 8:
		return src() + "TOPIC " + ch() + " :t"
	}
	verb := rapid.SampledFrom([]string{"JOIN", "PART", "KICK", "QUIT", "NICK", "MODE", "TOPIC", "311", "324", "332", "352", "353", "671", "001", "433"}).Draw(t, "verb")
	l := src() + verb
	for k := rapid.IntRange(0, 7).Draw(t, "nparams"); k > 0; k-- {
		p := tok()
		if p == "" {
			l += " :"
			break
		}
		l += " " + p
	}
	return l
}

func arbInvariants(st state.Tracker, tokens map[string]bool) string {
	me := st.Me()
	if me == nil {
		return "StateTracker().Me() is nil"
	}
	if st.GetNick(me.Nick) == nil {
		return fmt.Sprintf("the client's own entry %q is gone from the tracker", me.Nick)
	}
	for c := range tokens {
		ch := st.GetChannel(c)
		if ch == nil {
			continue
		}
		if _, ok := ch.Nicks[me.Nick]; !ok {
			return fmt.Sprintf("channel %q is tracked without the client in it: %s", c, fmtChan(ch))
		}
		if _, ok := me.Channels[c]; !ok {
			return fmt.Sprintf("channel %q lists the client but the client's entry does not list the channel", c)
		}
	}
	for n := range tokens {
		nk := st.GetNick(n)
		if nk == nil || n == me.Nick {
			continue
		}
		if len(nk.Channels) == 0 {
			return fmt.Sprintf("nick %q is tracked but shares no channel with the client: %s", n, fmtNick(nk))
		}
		for c := range nk.Channels {
			ch := st.GetChannel(c)
			if ch == nil {
				return fmt.Sprintf("nick %q is on %q which is not a tracked channel", n, c)
			}
			if _, ok := ch.Nicks[n]; !ok {
				return fmt.Sprintf("nick %q lists %q but the channel does not list the nick", n, c)
			}
		}
	}
	return ""
}

func runC13Arb(sc *c13Arb) *Violation {
	tc := newTestClient(cliOpts{Flood: true, Tracking: true, Nick: "me"})
	defer tc.shutdown()
	if err := tc.connect(); err != nil {
		return violationf("C13", "connect: %v", err)
	}
	conn := tc.conn()
	conn.SendLine(":irc.server 001 me :Welcome me!ident@host")
	tokens := map[string]bool{"me": true, "": true}
	for _, n := range arbNicks {
		tokens[n] = true
	}
	for _, c := range arbChans {
		tokens[c] = true
	}
	st := tc.C.StateTracker()
	for i, q := range sc.Lines {
		l := string(q)
		for _, f := range strings.Fields(l) {
			f = strings.TrimLeft(f, ":")
			tokens[f] = true
			tokens[strings.TrimLeft(f, "~&@%+")] = true
			if k := strings.Index(f, "!"); k >= 0 {
				tokens[f[:k]] = true
			}
		}
		conn.SendLine(l)
		if !tc.syncIn(stallTimeout()) {
			return violationf("C13", "line %d %q: client stopped processing", i, l)
		}
		if d := arbInvariants(st, tokens); d != "" {
			return &Violation{Property: "C13", Msg: fmt.Sprintf("after line %d %q: %s", i, l, d), Detail: st.String()}
		}
	}
	return nil
}

func TestC13_Arbitrary(t *testing.T) {
	col := evid.New("C13", "sessions of 20..300 arbitrary lines over the handled verbs with plausible shapes but wrong / odd / empty / prefixed names and arbitrary parameter lists, against a tracked client; invariants after every line: own entry present, every tracked channel contains the client, every other tracked nick is on a tracked channel, both membership directions agree; non-trivial = session contains a JOIN by the client followed by >=5 further lines; distinct by session")
	defer finish(t, col)
	rapid.Check(t, func(t *rapid.T) {
		sc := &c13Arb{}
		n := rapid.IntRange(20, 300).Draw(t, "nlines")
		if rapid.Bool().Draw(t, "shortish") {
			n = rapid.IntRange(20, 60).Draw(t, "nlines_short")
		}
		joinedAt := -1
		for i := 0; i < n; i++ {
			l := genArbLine(t)
			if joinedAt < 0 && strings.HasPrefix(l, ":me!u@h JOIN #") {
				joinedAt = i
			}
			sc.Lines = append(sc.Lines, Q(l))
		}
		v := runC13Arb(sc)
		b, _ := json.Marshal(sc)
		col.Case(string(b), joinedAt >= 0 && joinedAt+5 < n, fmt.Sprintf("client_joined=%v", joinedAt >= 0))
		if n <= 25 {
			col.Sample(sc)
		}
		if v != nil {
			failRapid(t, "TestC13_Arbitrary", v, sc)
		}
	})
}

func TestC13_Arbitrary_Replay(t *testing.T) {
	var sc c13Arb
	loadReplay(t, &sc)
	if v := runC13Arb(&sc); v != nil {
		t.Fatalf("REPRODUCED %s", v.Msg)
	}
}

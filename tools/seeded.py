#!/usr/bin/env python3
"""Confirm a sub-agent's seeded change and run the checks against it.

  tools/seeded.py import <outdir>/<k> <seed-id> <PROP> [<PROP>...]   confirm + run + store under /verif/seeded/<seed-id>/
  tools/seeded.py run [<seed-id-prefix> ...] [--tier quick]          re-run the stored seeds against the checks

Confirmation (all in a scratch worktree outside /repo and /verif, removed afterwards):
  patch applies; goirc's own tests pass with it; the demonstration fails with it and passes without it.
"""
import json, os, shutil, subprocess, sys, tempfile
VERIF = os.path.dirname(os.path.dirname(os.path.abspath(__file__)))
ENV = dict(os.environ, GOFLAGS="-mod=mod", GOPROXY="off", GOSUMDB="off", GOTOOLCHAIN="local")

def run(cmd, **kw):
    return subprocess.run(cmd, stdout=subprocess.PIPE, stderr=subprocess.STDOUT, text=True, env=kw.pop("env", ENV), **kw)

def worktree():
    wt = tempfile.mkdtemp(prefix="seedchk-", dir="/tmp"); os.rmdir(wt)
    r = run(["git", "-C", "/repo", "worktree", "add", "--detach", wt, "HEAD"])
    assert r.returncode == 0, r.stdout
    return wt

def rm_worktree(wt):
    run(["git", "-C", "/repo", "worktree", "remove", "--force", wt]); shutil.rmtree(wt, ignore_errors=True)

def place_demo(wt, src_dir, meta):
    place = meta.get("demo_place_path")
    files = [f for f in os.listdir(src_dir) if f.startswith("demo")]
    placed = []
    for f in files:
        p = os.path.join(src_dir, f)
        if os.path.isdir(p):
            dst = os.path.join(wt, "zz_seed_demo"); shutil.copytree(p, dst); placed.append(dst)
        else:
            dst = os.path.join(wt, place or "client/zz_demo_test.go"); shutil.copy(p, dst); placed.append(dst)
    return placed

def demo(wt, meta):
    r = run(["bash", "-c", meta["demo_cmd_norm"]], cwd=wt)
    return r.returncode, r.stdout[-1500:]

def confirm(src_dir, meta):
    wt = worktree(); log = {}
    try:
        r = run(["git", "-C", wt, "apply", os.path.join(src_dir, "patch.diff")])
        log["applies"] = r.returncode == 0
        if r.returncode != 0:
            log["apply_output"] = r.stdout; return log
        for _ in range(3):
            r = run([os.path.join(VERIF, "tools", "repotest.sh"), wt])
            if r.returncode == 0: break
        log["suite_with_change"] = "pass" if r.returncode == 0 else "FAIL: " + r.stdout[-500:]
        placed = place_demo(wt, src_dir, meta)
        rc, out = demo(wt, meta); log["demo_with_change"] = "fails" if rc != 0 else "PASSES (bad)"; log["demo_with_change_tail"] = out[-600:]
        run(["git", "-C", wt, "checkout", "--", "."])
        rc, out = demo(wt, meta); log["demo_without_change"] = "passes" if rc == 0 else "FAILS (bad): " + out[-600:]
    finally:
        rm_worktree(wt)
    log["confirmed"] = log.get("applies") and log.get("suite_with_change") == "pass" and log.get("demo_with_change") == "fails" and log.get("demo_without_change") == "passes"
    return log

def run_checks(patch, props, tier):
    wt = worktree(); out = tempfile.mkdtemp(prefix="seedout-", dir="/tmp"); res = {}
    try:
        r = run(["git", "-C", wt, "apply", patch])
        if r.returncode != 0:
            return {"error": "patch does not apply to current /repo HEAD: " + r.stdout[-300:]}
        for pid in props:
            env = dict(os.environ, VERIF_REPO=wt, VERIF_OUT_DIR=out, VERIF_SKIP_REGRESS="1")
            r = run([os.path.join(VERIF, "check"), pid, "--tier", tier], env=env, cwd=VERIF)
            lines = [l for l in r.stdout.splitlines() if l.startswith(("VIOLATION", "violation in", "INCONCLUSIVE", "OK "))]
            res[pid] = {"exit": r.returncode, "summary": [l[:400] for l in lines[-2:]]}
    finally:
        rm_worktree(wt); shutil.rmtree(out, ignore_errors=True)
    return res

def main():
    a = sys.argv[1:]
    tier = "quick"
    if "--tier" in a:
        i = a.index("--tier"); tier = a[i + 1]; del a[i:i + 2]
    if a[0] == "import":
        src, sid, props = a[1], a[2], a[3:]
        meta = json.load(open(os.path.join(src, "meta.json")))
        # normalise the demo command: default go test in client or state
        place = meta.get("demo_place", "")
        pkg = "state" if "state/" in place or "./state" in meta.get("demo_cmd", "") else "client"
        meta["demo_place_path"] = "%s/zz_demo_test.go" % pkg
        meta["demo_cmd_norm"] = meta.get("demo_cmd_norm") or "go test -vet=off -count=1 -run TestSeedDemo ./%s/" % pkg
        if os.path.isdir(os.path.join(src, "demo")):
            meta["demo_cmd_norm"] = "go run ./zz_seed_demo"
        log = confirm(src, meta)
        print(json.dumps(log, indent=1)[:3000])
        if not log.get("confirmed"):
            print("NOT CONFIRMED - not stored"); sys.exit(1)
        dst = os.path.join(VERIF, "seeded", sid); os.makedirs(dst, exist_ok=True)
        for f in os.listdir(src):
            p = os.path.join(src, f)
            if os.path.isdir(p): shutil.copytree(p, os.path.join(dst, f), dirs_exist_ok=True)
            else: shutil.copy(p, dst)
        # keep test files from being picked up by go tooling under /verif
        for f in os.listdir(dst):
            if f.endswith("_test.go"): os.rename(os.path.join(dst, f), os.path.join(dst, f + ".txt"))
        res = run_checks(os.path.join(dst, "patch.diff"), props, tier)
        meta.update({"breaks_property": props[0], "checked_properties": props, "confirmation": log, "check_results": {tier: res},
                     "what_i_ran": "tools/seeded.py import: git apply in a scratch worktree; tools/repotest.sh; demo with and without the change; ./check <prop> with VERIF_REPO=<worktree>"})
        json.dump(meta, open(os.path.join(dst, "meta.json"), "w"), indent=1)
        print(sid, {p: ("ALARM" if r["exit"] == 1 else "quiet" if r["exit"] == 0 else "exit%d" % r["exit"]) for p, r in res.items()} if "error" not in res else res)
        for p, r in res.items():
            if isinstance(r, dict) and r.get("summary"): print("   ", p, r["summary"][0][:300])
    elif a[0] == "refresh":
        # re-base stored patches that no longer apply to /repo's HEAD (3-way, using the blobs the patch names)
        for sid in sorted(os.listdir(os.path.join(VERIF, "seeded"))):
            dst = os.path.join(VERIF, "seeded", sid)
            if not os.path.isdir(dst): continue
            patch = os.path.join(dst, "patch.diff")
            wt = worktree()
            try:
                if run(["git", "-C", wt, "apply", "--check", patch]).returncode == 0:
                    continue
                r = run(["git", "-C", wt, "apply", "-3", patch])
                if r.returncode != 0:
                    print(sid, "CANNOT re-base:", r.stdout[-300:]); continue
                d = run(["git", "-C", wt, "diff", "HEAD"]).stdout
                if not os.path.exists(os.path.join(dst, "patch.orig.diff")):
                    shutil.copy(patch, os.path.join(dst, "patch.orig.diff"))
                open(patch, "w").write(d)
                print(sid, "re-based onto", run(["git", "-C", "/repo", "log", "--format=%h", "-1"]).stdout.strip())
            finally:
                rm_worktree(wt)
    elif a[0] == "run":
        sel = a[1:]
        jobs = 1
        if "-j" in sel:
            i = sel.index("-j"); jobs = int(sel[i + 1]); del sel[i:i + 2]
        sids = [sid for sid in sorted(os.listdir(os.path.join(VERIF, "seeded")))
                if os.path.isdir(os.path.join(VERIF, "seeded", sid)) and (not sel or any(sid.startswith(s) for s in sel))]
        def one(sid):
            dst = os.path.join(VERIF, "seeded", sid)
            meta = json.load(open(os.path.join(dst, "meta.json")))
            if meta.get("obsolete"):
                return sid, {"error": "obsolete (no longer a defect on the current tree)"}
            res = run_checks(os.path.join(dst, "patch.diff"), meta["checked_properties"], tier)
            meta.setdefault("check_results", {})[tier] = res
            json.dump(meta, open(os.path.join(dst, "meta.json"), "w"), indent=1)
            return sid, res
        import concurrent.futures as cf
        with cf.ThreadPoolExecutor(jobs) as ex:
            for sid, res in ex.map(one, sids):
                print(sid, {p: ("ALARM" if r["exit"] == 1 else "quiet" if r["exit"] == 0 else "exit%d" % r["exit"]) for p, r in res.items()} if "error" not in res else res, flush=True)
    elif a[0] == "index":
        # one-line-per-seed summary of what is stored under seeded/
        idx = []
        for sid in sorted(os.listdir(os.path.join(VERIF, "seeded"))):
            dst = os.path.join(VERIF, "seeded", sid)
            if not os.path.isdir(dst): continue
            m = json.load(open(os.path.join(dst, "meta.json")))
            q = m.get("check_results", {}).get("quick", {})
            now = {p: ("ALARM" if r.get("exit") == 1 else "quiet" if r.get("exit") == 0 else "exit%s" % r.get("exit")) for p, r in q.items()} if "error" not in q else q
            if m.get("obsolete"): now = {"obsolete": m["obsolete"][:120]}
            rnd = m.get("round") or (3 if "-r3" in sid else 2 if "-r2" in sid else 1)
            idx.append({"id": sid, "round": rnd, "property": m.get("breaks_property"), "needs": (m.get("needs") or "")[:300], "first_run": m.get("first_run"), "now": now})
        json.dump(idx, open(os.path.join(VERIF, "seeded", "INDEX.json"), "w"), indent=1)
        caught = sum(1 for e in idx if isinstance(e["now"], dict) and "ALARM" in e["now"].values())
        print("%d obsolete" % sum(1 for e in idx if isinstance(e["now"], dict) and "obsolete" in e["now"]))
        print("%d seeds indexed, %d currently raise an alarm in at least one check" % (len(idx), caught))

main()

#!/bin/bash
# Runs goirc's own test suite (guard off) and lists failing tests; TestPing is timing-flaky in the baseline.
export GOFLAGS=-mod=mod GOPROXY=off GOSUMDB=off GOTOOLCHAIN=local
cd ${1:-/repo} && go test -json -vet=off -count=1 -timeout 3m ./... 2>&1 | python3 -c '
import sys,json
fails=[];passed=0;build=[]
for l in sys.stdin:
    try: e=json.loads(l)
    except Exception: build.append(l); continue
    if e.get("Test") and e.get("Action")=="pass": passed+=1
    if e.get("Test") and e.get("Action")=="fail": fails.append(e["Package"]+"::"+e["Test"])
    if not e.get("Test") and e.get("Action")=="fail": build.append(e.get("Package","")+" package failed\n")
real=[f for f in fails if not f.endswith("::TestPing")]
print("passed=%d failed=%s"%(passed,fails))
if real or (build and not fails): print("".join(build)); sys.exit(1)
'

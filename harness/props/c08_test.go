package props

import (
	"fmt"
	"strings"
	"testing"
	"time"

	"verifharness/evid"

	"github.com/fluffle/goirc/client"
	"pgregory.net/rapid"
)

// ---------------------------------------------------------------------------
// a long-lived client whose wire output is attributed to single API calls
// ---------------------------------------------------------------------------

type wireClient struct {
	tc    *testClient
	pos   int // bytes of the transcript already consumed
	n     int
	calls int
}

var wc *wireClient

func getWireClient(prop string) (*wireClient, *Violation) {
	if wc != nil && wc.tc.C.Connected() {
		return wc, nil
	}
	w := &wireClient{tc: newTestClient(cliOpts{Flood: true, Configure: func(cfg *client.Config) {
		cfg.Timeout = 20 * time.Millisecond // dial timeout; the stall cases below last longer than this
	}})}
	if err := w.tc.connect(); err != nil {
		return nil, violationf(prop, "connect: %v", err)
	}
	wc = w
	return w, nil
}

const markPfx = "\x03\x03VM"

// capture runs f (which issues API calls from this goroutine only) and
// returns exactly the bytes the client wrote because of it.
func (w *wireClient) capture(prop string, f func(c *client.Conn)) (string, *Violation) {
	w.n++
	begin := fmt.Sprintf("%s%dB", markPfx, w.n)
	end := fmt.Sprintf("%s%dE", markPfx, w.n)
	c := w.tc.conn()
	w.tc.C.Raw(begin)
	w.calls++
	if w.calls%997 == 0 {
		// now and then the server stops reading for longer than Config.Timeout in the middle of a call:
		// whatever the client does about it, only whole lines of the right verb may reach the wire
		c.PartialWrites(true)
		c.Gate(true)
		go func() {
			time.Sleep(45 * time.Millisecond)
			c.Gate(false)
		}()
	}
	done := make(chan interface{}, 1)
	go func() {
		defer func() { done <- recover() }()
		f(w.tc.C)
	}()
	select {
	case p := <-done:
		if p != nil {
			wc = nil
			return "", violationf(prop, "API call panicked: %v", p)
		}
	case <-time.After(stallTimeout()):
		wc = nil
		_, dump := goircGoroutines()
		return "", &Violation{Property: prop, Msg: "API call did not return (no finite sequence of writes)", Detail: dump}
	}
	w.tc.C.Raw(end)
	endLine := end + "\r\n"
	ok := c.WaitWritten(func(s string) bool { return strings.Contains(s[w.pos:], endLine) }, stallTimeout())
	all := c.Written()
	if !ok {
		wc = nil
		return "", violationf(prop, "end marker never reached the wire; tail of transcript: %q", tail(all[w.pos:], 300))
	}
	seg := all[w.pos:]
	bi := strings.Index(seg, begin+"\r\n")
	ei := strings.Index(seg, endLine)
	if bi < 0 || ei < bi {
		wc = nil
		return "", violationf(prop, "markers out of order on the wire: %q", tail(seg, 300))
	}
	out := seg[bi+len(begin)+2 : ei]
	w.pos += ei + len(endLine)
	return out, nil
}

func tail(s string, n int) string {
	if len(s) > n {
		return "..." + s[len(s)-n:]
	}
	return s
}

// ---------------------------------------------------------------------------
// C08
// ---------------------------------------------------------------------------

type c08Method struct {
	Name  string
	Verb  string
	NArgs int  // fixed string arguments
	Var   bool // has a variadic string tail
	Call  func(c *client.Conn, a []string, v []string)
}

func ifs(v []string) []interface{} {
	out := make([]interface{}, len(v))
	for i, s := range v {
		out[i] = s
	}
	return out
}

var c08Methods = []c08Method{
	{"Raw", "", 1, false, func(c *client.Conn, a, v []string) { c.Raw(a[0]) }},
	{"Pass", "PASS", 1, false, func(c *client.Conn, a, v []string) { c.Pass(a[0]) }},
	{"Nick", "NICK", 1, false, func(c *client.Conn, a, v []string) { c.Nick(a[0]) }},
	{"User", "USER", 2, false, func(c *client.Conn, a, v []string) { c.User(a[0], a[1]) }},
	{"Join", "JOIN", 1, true, func(c *client.Conn, a, v []string) { c.Join(a[0], v...) }},
	{"Part", "PART", 1, true, func(c *client.Conn, a, v []string) { c.Part(a[0], v...) }},
	{"Kick", "KICK", 2, true, func(c *client.Conn, a, v []string) { c.Kick(a[0], a[1], v...) }},
	{"Quit", "QUIT", 0, true, func(c *client.Conn, a, v []string) { c.Quit(v...) }},
	{"Whois", "WHOIS", 1, false, func(c *client.Conn, a, v []string) { c.Whois(a[0]) }},
	{"Who", "WHO", 1, false, func(c *client.Conn, a, v []string) { c.Who(a[0]) }},
	{"Privmsg", "PRIVMSG", 2, false, func(c *client.Conn, a, v []string) { c.Privmsg(a[0], a[1]) }},
	{"Privmsgln", "PRIVMSG", 1, true, func(c *client.Conn, a, v []string) { c.Privmsgln(a[0], ifs(v)...) }},
	{"Privmsgf", "PRIVMSG", 2, true, func(c *client.Conn, a, v []string) { c.Privmsgf(a[0], a[1], ifs(v)...) }},
	{"Notice", "NOTICE", 2, false, func(c *client.Conn, a, v []string) { c.Notice(a[0], a[1]) }},
	{"Ctcp", "PRIVMSG", 2, true, func(c *client.Conn, a, v []string) { c.Ctcp(a[0], a[1], v...) }},
	{"CtcpReply", "NOTICE", 2, true, func(c *client.Conn, a, v []string) { c.CtcpReply(a[0], a[1], v...) }},
	{"Version", "PRIVMSG", 1, false, func(c *client.Conn, a, v []string) { c.Version(a[0]) }},
	{"Action", "PRIVMSG", 2, false, func(c *client.Conn, a, v []string) { c.Action(a[0], a[1]) }},
	{"Topic", "TOPIC", 1, true, func(c *client.Conn, a, v []string) { c.Topic(a[0], v...) }},
	{"Mode", "MODE", 1, true, func(c *client.Conn, a, v []string) { c.Mode(a[0], v...) }},
	{"Away", "AWAY", 0, true, func(c *client.Conn, a, v []string) { c.Away(v...) }},
	{"Invite", "INVITE", 2, false, func(c *client.Conn, a, v []string) { c.Invite(a[0], a[1]) }},
	{"Oper", "OPER", 2, false, func(c *client.Conn, a, v []string) { c.Oper(a[0], a[1]) }},
	{"VHost", "VHOST", 2, false, func(c *client.Conn, a, v []string) { c.VHost(a[0], a[1]) }},
	{"Ping", "PING", 1, false, func(c *client.Conn, a, v []string) { c.Ping(a[0]) }},
	{"Pong", "PONG", 1, false, func(c *client.Conn, a, v []string) { c.Pong(a[0]) }},
	{"Cap", "CAP", 1, true, func(c *client.Conn, a, v []string) { c.Cap(a[0], v...) }},
	{"Authenticate", "AUTHENTICATE", 1, false, func(c *client.Conn, a, v []string) { c.Authenticate(a[0]) }},
}

type c08Case struct {
	Method   string `json:"method"`
	Args     []Q    `json:"args"`
	Var      []Q    `json:"variadic"`
	SplitLen int    `json:"split_len"`
	QuitMsg  Q      `json:"quit_message"`
	Version  Q      `json:"version"`
}

var hostileUnits = []string{"\r", "\n", "\r\n", "\n\r", "\x00", "\x01", " ", " ", ":", "a", "b", "Z", "#", "%s", "%d", "%", "QUIT :x", "\r\nQUIT :pwn", "\nJOIN #evil", "PRIVMSG", ". ", ", ", "é", "\xff", "..."}

func genHostileArg(t *rapid.T, label string) string {
	switch rapid.IntRange(0, 9).Draw(t, label+"_shape") {
	case 0:
		return ""
	case 1:
		// long run
		unit := rapid.SampledFrom([]string{"a", "ab ", "x. ", "\xff", "w\r", "0123456789 "}).Draw(t, label+"_unit")
		n := rapid.IntRange(1, 2000/len(unit)).Draw(t, label+"_rep")
		s := strings.Repeat(unit, n)
		if rapid.Bool().Draw(t, label+"_inject") {
			k := rapid.IntRange(0, len(s)).Draw(t, label+"_at")
			s = s[:k] + rapid.SampledFrom([]string{"\r", "\n", "\r\n"}).Draw(t, label+"_nl") + "QUIT :x" + s[k:]
		}
		return s
	}
	return genUnits(t, label, hostileUnits, 1, 10)
}

func genC08(t *rapid.T) *c08Case {
	m := rapid.SampledFrom(c08Methods).Draw(t, "method")
	c := &c08Case{Method: m.Name}
	for i := 0; i < m.NArgs; i++ {
		c.Args = append(c.Args, Q(genHostileArg(t, fmt.Sprintf("arg%d", i))))
	}
	if m.Var {
		n := rapid.IntRange(0, 3).Draw(t, "nvar")
		for i := 0; i < n; i++ {
			c.Var = append(c.Var, Q(genHostileArg(t, fmt.Sprintf("var%d", i))))
		}
	}
	c.SplitLen = rapid.SampledFrom([]int{-5, 0, 1, 12, 13, 14, 50, 450, 10000}).Draw(t, "split_len")
	c.QuitMsg = Q(genHostileArg(t, "quitmsg"))
	c.Version = Q(genHostileArg(t, "version"))
	return c
}

func unq(qs []Q) []string {
	out := make([]string, len(qs))
	for i, q := range qs {
		out[i] = string(q)
	}
	return out
}

func (c *c08Case) hasNewline() (bool, int) {
	for i, a := range append(append([]Q{}, c.Args...), c.Var...) {
		if strings.ContainsAny(string(a), "\r\n") {
			return true, i
		}
	}
	return false, -1
}

// checkWholeLines: bytes are a concatenation of "line CRLF", no CR/LF inside.
func checkWholeLines(prop, out string) ([]string, *Violation) {
	lines, rest := SplitCRLF(out)
	if rest != "" {
		return nil, violationf(prop, "output does not end in CRLF: %q", tail(out, 200))
	}
	for _, l := range lines {
		if strings.ContainsAny(l, "\r\n") {
			return nil, violationf(prop, "CR or LF inside a line: %q", l)
		}
	}
	return lines, nil
}

func SplitCRLF(s string) ([]string, string) {
	var lines []string
	for {
		i := strings.Index(s, "\r\n")
		if i < 0 {
			return lines, s
		}
		lines = append(lines, s[:i])
		s = s[i+2:]
	}
}

func runC08(c *c08Case) *Violation {
	var m *c08Method
	for i := range c08Methods {
		if c08Methods[i].Name == c.Method {
			m = &c08Methods[i]
		}
	}
	if m == nil {
		return nil
	}
	w, v := getWireClient("C08")
	if v != nil {
		return v
	}
	cfg := w.tc.C.Config()
	cfg.SplitLen = c.SplitLen
	cfg.QuitMessage = string(c.QuitMsg)
	cfg.Version = string(c.Version)
	args, vargs := unq(c.Args), unq(c.Var)
	out, v := w.capture("C08", func(cl *client.Conn) { m.Call(cl, args, vargs) })
	if v != nil {
		return v
	}
	lines, v := checkWholeLines("C08", out)
	if v != nil {
		v.Msg = fmt.Sprintf("%s(%q, %q): %s", c.Method, args, vargs, v.Msg)
		return v
	}
	if len(lines) < 1 {
		return violationf("C08", "%s(%q, %q) wrote nothing", c.Method, args, vargs)
	}
	if m.Name == "Raw" {
		want := args[0]
		if i := strings.IndexAny(want, "\r\n"); i >= 0 {
			want = want[:i]
		}
		if len(lines) != 1 || lines[0] != want {
			return violationf("C08", "Raw(%q) wrote %q, want the single line %q", args[0], lines, want)
		}
		return nil
	}
	for _, l := range lines {
		if l != m.Verb && !strings.HasPrefix(l, m.Verb+" ") {
			return violationf("C08", "%s(%q, %q) wrote a line that does not begin with %s: %q (all lines: %q)", c.Method, args, vargs, m.Verb, l, lines)
		}
	}
	return nil
}

func TestC08(t *testing.T) {
	col := evid.New("C08", "every exported command method with hostile strings (CR, LF, CRLF, NUL, \\x01, second commands, long runs, empty) in every fixed and variadic position, SplitLen from {-5,0,1,12,13,14,50,450,10000}; non-trivial = some argument contains CR or LF; distinct by (method, arguments, SplitLen)")
	defer finish(t, col)
	rapid.Check(t, func(t *rapid.T) {
		c := genC08(t)
		v := runC08(c)
		nl, pos := c.hasNewline()
		key := fmt.Sprintf("%s|%q|%q|%d", c.Method, c.Args, c.Var, c.SplitLen)
		cls := []string{"method=" + c.Method}
		if nl {
			cls = append(cls, fmt.Sprintf("newline_in_arg=%d", pos))
		}
		col.Case(key, nl, cls...)
		if len(key) < 200 {
			col.Sample(c)
		}
		if v != nil {
			failRapid(t, "TestC08", v, c)
		}
	})
	if wc != nil {
		wc.tc.shutdown()
		wc = nil
	}
}

func TestC08_Replay(t *testing.T) {
	var c c08Case
	loadReplay(t, &c)
	if v := runC08(&c); v != nil {
		t.Fatalf("REPRODUCED %s", v.Msg)
	}
}

// FuzzC08 decodes fuzzer bytes into (method, SplitLen, arguments).
func FuzzC08(f *testing.F) {
	f.Add([]byte{0, 3, 'a', '\r', '\n', 'Q', 'U', 'I', 'T'})
	f.Add([]byte{10, 4, '#', 'c', 0xfe, 'x', '\n', 'y'})
	f.Add([]byte{26, 0, 'R', 'E', 'Q', 0xfe, 'a', '\r', 0xfe, 'b'})
	f.Fuzz(func(t *testing.T, data []byte) {
		if len(data) < 2 {
			return
		}
		m := c08Methods[int(data[0])%len(c08Methods)]
		sl := []int{-5, 0, 1, 12, 13, 14, 50, 450, 10000}[int(data[1])%9]
		parts := strings.Split(string(data[2:]), "\xfe")
		c := &c08Case{Method: m.Name, SplitLen: sl, QuitMsg: "bye\r\nx", Version: "v\nx"}
		for i := 0; i < m.NArgs; i++ {
			if i < len(parts) {
				c.Args = append(c.Args, Q(parts[i]))
			} else {
				c.Args = append(c.Args, "")
			}
		}
		if m.Var && len(parts) > m.NArgs {
			rest := parts[m.NArgs:]
			if len(rest) > 4 {
				rest = rest[:4]
			}
			c.Var = qs(rest)
		}
		if v := runC08(c); v != nil {
			t.Fatalf("VIOLATION C08: %s", v.Msg)
		}
	})
}

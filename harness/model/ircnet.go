package model

import (
	"fmt"
	"sort"
	"strconv"
	"strings"
)

// Net is a small model IRC network as one client ("me") sees it: the ground
// truth of who is where with which privileges, plus what the protocol has
// revealed to that client so far.

type NUser struct {
	Nick, Ident, Host, Name string
	Online                  bool
	// what the protocol has revealed to the client about this user while it has been sharing a
	// channel with it: nothing (seen in NAMES only), ident+host (seen joining), everything (WHO reply)
	VTracked            bool
	VIdent, VHost, VName string
}

type NMember struct {
	True map[byte]bool // privilege letters actually held (q a o h v)
	Seen map[byte]bool // what NAMES + later MODE lines revealed to the client
}

type NChan struct {
	Name    string
	Topic   string
	Flags   map[byte]bool // i m n p r s t z Z O
	Key     string
	Limit   int
	Members map[int]*NMember // user index -> membership
	// what the client has been told
	ModesKnown bool // a 324 has been sent since the client joined
}

type Net struct {
	Server string
	Users  []*NUser
	Me     int
	Chans  map[string]*NChan
}

var PrivLetters = []byte{'q', 'a', 'o', 'h', 'v'}
var PrivPrefix = map[byte]byte{'q': '~', 'a': '&', 'o': '@', 'h': '%', 'v': '+'}
var FlagLetters = []byte{'i', 'm', 'n', 'p', 'r', 's', 't', 'z', 'Z', 'O'}

func NewNet(meNick string) *Net {
	n := &Net{Server: "irc.example.net", Chans: map[string]*NChan{}}
	n.Users = append(n.Users, &NUser{Nick: meNick, Ident: "ident", Host: "client.host", Name: "Real Name", Online: true})
	return n
}

func (n *Net) AddUser(nick, ident, host, name string) int {
	n.Users = append(n.Users, &NUser{Nick: nick, Ident: ident, Host: host, Name: name, Online: true})
	return len(n.Users) - 1
}

func (n *Net) Prefix(u int) string {
	x := n.Users[u]
	return ":" + x.Nick + "!" + x.Ident + "@" + x.Host
}

func (n *Net) MeNick() string { return n.Users[n.Me].Nick }

func (n *Net) NickInUse(nick string) bool {
	for _, u := range n.Users {
		if u.Online && u.Nick == nick {
			return true
		}
	}
	return false
}

func (n *Net) On(ch string, u int) bool {
	c, ok := n.Chans[ch]
	if !ok {
		return false
	}
	_, ok = c.Members[u]
	return ok
}

func (n *Net) ClientOn(ch string) bool { return n.On(ch, n.Me) }

// Shares reports whether user u shares at least one channel with the client.
func (n *Net) Shares(u int) bool {
	for _, c := range n.Chans {
		if _, ok := c.Members[n.Me]; ok {
			if _, ok := c.Members[u]; ok {
				return true
			}
		}
	}
	return false
}

func (n *Net) chanOrNew(ch string) *NChan {
	c, ok := n.Chans[ch]
	if !ok {
		c = &NChan{Name: ch, Flags: map[byte]bool{}, Members: map[int]*NMember{}}
		n.Chans[ch] = c
	}
	return c
}

func (n *Net) SortedMembers(c *NChan) []int {
	var ids []int
	for u := range c.Members {
		ids = append(ids, u)
	}
	sort.Ints(ids)
	return ids
}

func highest(p map[byte]bool) byte {
	for _, l := range PrivLetters {
		if p[l] {
			return l
		}
	}
	return 0
}

// ModeString renders the channel's modes as a 324 reply would: "+ntk key 10".
func (c *NChan) ModeString() (string, []string) {
	s := "+"
	for _, f := range FlagLetters {
		if c.Flags[f] {
			s += string(f)
		}
	}
	var args []string
	if c.Key != "" {
		s += "k"
		args = append(args, c.Key)
	}
	if c.Limit != 0 {
		s += "l"
		args = append(args, strconv.Itoa(c.Limit))
	}
	return s, args
}

// ---- events: each mutates the truth and returns the lines a conformant
// server sends to the client because of it ----

// join adds u to ch (creating it; a creator gets +o). silent events (the
// client is not on the channel) return no lines.
func (n *Net) Join(u int, ch string, namesSplit int, trailingSpace bool, colonForm bool) []string {
	c := n.chanOrNew(ch)
	if _, ok := c.Members[u]; ok {
		return nil
	}
	m := &NMember{True: map[byte]bool{}, Seen: map[byte]bool{}}
	if len(c.Members) == 0 {
		m.True['o'] = true
	}
	c.Members[u] = m
	me := n.MeNick()
	if u != n.Me {
		if !n.ClientOn(ch) {
			return nil
		}
		if x := n.Users[u]; !x.VTracked {
			x.VTracked, x.VIdent, x.VHost, x.VName = true, x.Ident, x.Host, ""
		}
		return []string{n.Prefix(u) + " JOIN " + colon(colonForm) + ch}
	}
	// the client joins: echo, topic, names, end of names
	c.ModesKnown = false
	lines := []string{n.Prefix(u) + " JOIN " + colon(colonForm) + ch}
	if c.Topic != "" {
		lines = append(lines, fmt.Sprintf(":%s 332 %s %s :%s", n.Server, me, ch, c.Topic))
		lines = append(lines, fmt.Sprintf(":%s 333 %s %s someone 1600000000", n.Server, me, ch))
	}
	lines = append(lines, n.namesLines(c, namesSplit, trailingSpace, true)...)
	lines = append(lines, fmt.Sprintf(":%s 366 %s %s :End of /NAMES list.", n.Server, me, ch))
	n.RefreshViews()
	return lines
}

// namesLines renders a NAMES reply (353 lines) for c. A NAMES reply shows the highest privilege each
// member holds: after the client's own JOIN (fresh=true) that is all it knows; a later reply to a
// NAMES request of the application's adds to what MODE lines have revealed since.
func (n *Net) namesLines(c *NChan, namesSplit int, trailingSpace bool, fresh bool) []string {
	me := n.MeNick()
	var lines []string
	ids := n.SortedMembers(c)
	var names []string
	for _, id := range ids {
		mm := c.Members[id]
		if fresh {
			mm.Seen = map[byte]bool{}
		}
		nm := n.Users[id].Nick
		if h := highest(mm.True); h != 0 {
			mm.Seen[h] = true
			nm = string(PrivPrefix[h]) + nm
		}
		names = append(names, nm)
	}
	if namesSplit < 1 {
		namesSplit = 1
	}
	per := (len(names) + namesSplit - 1) / namesSplit
	for i := 0; i < len(names); i += per {
		j := i + per
		if j > len(names) {
			j = len(names)
		}
		t := strings.Join(names[i:j], " ")
		if trailingSpace {
			t += " "
		}
		lines = append(lines, fmt.Sprintf(":%s 353 %s = %s :%s", n.Server, me, c.Name, t))
	}
	return lines
}

// ReplyNames answers a NAMES request for a channel the client is on.
func (n *Net) ReplyNames(ch string, namesSplit int, trailingSpace bool) []string {
	c, ok := n.Chans[ch]
	if !ok || !n.ClientOn(ch) {
		return []string{fmt.Sprintf(":%s 366 %s %s :End of /NAMES list.", n.Server, n.MeNick(), ch)}
	}
	lines := n.namesLines(c, namesSplit, trailingSpace, false)
	return append(lines, fmt.Sprintf(":%s 366 %s %s :End of /NAMES list.", n.Server, n.MeNick(), ch))
}

// RefreshViews forgets what was revealed about users that no longer share a
// channel with the client and starts an empty view for users first seen in a
// NAMES reply. Call after every event.
func (n *Net) RefreshViews() {
	for i, u := range n.Users {
		if i == n.Me {
			continue
		}
		if !u.Online || !n.Shares(i) {
			u.VTracked, u.VIdent, u.VHost, u.VName = false, "", "", ""
		} else if !u.VTracked {
			u.VTracked = true
		}
	}
}

func colon(b bool) string {
	if b {
		return ":"
	}
	return ""
}

// leave removes u from ch, dropping empty channels; returns whether the
// client could see it.
func (n *Net) leave(u int, ch string) bool {
	c, ok := n.Chans[ch]
	if !ok {
		return false
	}
	if _, ok := c.Members[u]; !ok {
		return false
	}
	visible := n.ClientOn(ch)
	delete(c.Members, u)
	if len(c.Members) == 0 {
		delete(n.Chans, ch)
	}
	return visible
}

func (n *Net) Part(u int, ch, msg string) []string {
	pfx := n.Prefix(u)
	if !n.leave(u, ch) {
		return nil
	}
	if msg != "" {
		return []string{pfx + " PART " + ch + " :" + msg}
	}
	return []string{pfx + " PART " + ch}
}

func (n *Net) Kick(by, victim int, ch, reason string) []string {
	pfx := n.Prefix(by)
	vn := n.Users[victim].Nick
	if !n.leave(victim, ch) {
		return nil
	}
	if reason == "" {
		return []string{pfx + " KICK " + ch + " " + vn} // the comment is optional
	}
	return []string{pfx + " KICK " + ch + " " + vn + " :" + reason}
}

func (n *Net) Quit(u int, msg string) []string {
	pfx := n.Prefix(u)
	visible := n.Shares(u)
	for ch := range n.Chans {
		n.leave(u, ch)
	}
	n.Users[u].Online = false
	if !visible {
		return nil
	}
	return []string{pfx + " QUIT :" + msg}
}

func (n *Net) Nick(u int, neu string, colonForm bool) []string {
	pfx := n.Prefix(u)
	visible := u == n.Me || n.Shares(u)
	n.Users[u].Nick = neu
	if !visible {
		return nil
	}
	return []string{pfx + " NICK " + colon(colonForm) + neu}
}

func (n *Net) SetTopic(by int, ch, topic string) []string {
	c, ok := n.Chans[ch]
	if !ok {
		return nil
	}
	c.Topic = topic
	if !n.ClientOn(ch) {
		return nil
	}
	return []string{n.Prefix(by) + " TOPIC " + ch + " :" + topic}
}

// ModeChange is one letter of a MODE line.
type ModeChange struct {
	On     bool
	Letter byte
	Arg    string // key, limit, or the nick of the member (resolved to User at apply time)
	User   int    // privilege letters: index of the member
}

func (n *Net) Mode(by int, ch string, changes []ModeChange) []string {
	c, ok := n.Chans[ch]
	if !ok {
		return nil
	}
	visible := n.ClientOn(ch)
	var ms strings.Builder
	var args []string
	last := byte(0)
	for _, m := range changes {
		sign := byte('-')
		if m.On {
			sign = '+'
		}
		if sign != last {
			ms.WriteByte(sign)
			last = sign
		}
		ms.WriteByte(m.Letter)
		switch m.Letter {
		case 'k':
			if m.On {
				c.Key = m.Arg
			} else {
				c.Key = ""
			}
			args = append(args, m.Arg)
		case 'l':
			if m.On {
				c.Limit, _ = strconv.Atoi(m.Arg)
				args = append(args, m.Arg)
			} else {
				c.Limit = 0
			}
		case 'q', 'a', 'o', 'h', 'v':
			mm := c.Members[m.User]
			mm.True[m.Letter] = m.On
			if visible {
				mm.Seen[m.Letter] = m.On
			}
			args = append(args, n.Users[m.User].Nick)
		case 'b', 'e', 'I':
			args = append(args, m.Arg)
		case 'c', 'C', 'R', 'M', 'S', 'T', 'u', 'N', 'g', 'j', 'f', 'L', 'J':
			// ircd-specific modes outside the modelled state (never generated in a form that carries an argument)
		default:
			c.Flags[m.Letter] = m.On
		}
	}
	if !visible {
		return nil
	}
	l := n.Prefix(by) + " MODE " + ch + " " + ms.String()
	if len(args) > 0 {
		l += " " + strings.Join(args, " ")
	}
	return []string{l}
}

// ClientReconnected: the client's connection ended and it registered again. For the network that
// is a quit followed by a fresh registration: the client is on no channel.
func (n *Net) ClientReconnected() {
	for ch := range n.Chans {
		n.leave(n.Me, ch)
	}
	n.RefreshViews()
}

// ---- replies to what the client asks ----

func (n *Net) ReplyMode(ch string) []string {
	c, ok := n.Chans[ch]
	me := n.MeNick()
	if !ok {
		return []string{fmt.Sprintf(":%s 403 %s %s :No such channel", n.Server, me, ch)}
	}
	c.ModesKnown = true
	ms, args := c.ModeString()
	l := fmt.Sprintf(":%s 324 %s %s %s", n.Server, me, ch, ms)
	if len(args) > 0 {
		l += " " + strings.Join(args, " ")
	}
	return []string{l, fmt.Sprintf(":%s 329 %s %s 1600000000", n.Server, me, ch)}
}

func (n *Net) who352(u int, ch string) string {
	x := n.Users[u]
	if x.VTracked {
		x.VIdent, x.VHost, x.VName = x.Ident, x.Host, x.Name
	}
	flags := "H"
	if c, ok := n.Chans[ch]; ok {
		if m, ok := c.Members[u]; ok {
			if h := highest(m.True); h != 0 && (h == 'o' || h == 'v') {
				flags += string(PrivPrefix[h])
			}
		}
	}
	return fmt.Sprintf(":%s 352 %s %s %s %s %s %s %s :0 %s", n.Server, n.MeNick(), ch, x.Ident, x.Host, n.Server, x.Nick, flags, x.Name)
}

func (n *Net) ReplyWho(target string) []string {
	me := n.MeNick()
	var lines []string
	if c, ok := n.Chans[target]; ok {
		for _, u := range n.SortedMembers(c) {
			lines = append(lines, n.who352(u, target))
		}
	} else {
		for i, u := range n.Users {
			if u.Online && u.Nick == target {
				ch := "*"
				var names []string
				for name := range n.Chans {
					names = append(names, name)
				}
				sort.Strings(names)
				for _, name := range names {
					if _, ok := n.Chans[name].Members[i]; ok && n.ClientOn(name) {
						ch = name
						break
					}
				}
				lines = append(lines, n.who352(i, ch))
			}
		}
	}
	return append(lines, fmt.Sprintf(":%s 315 %s %s :End of /WHO list.", n.Server, me, target))
}

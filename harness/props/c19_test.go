package props

import (
	"encoding/base64"
	"encoding/json"
	"fmt"
	"sort"
	"strings"
	"testing"
	"time"

	"verifharness/evid"

	sasl "github.com/emersion/go-sasl"
	"github.com/fluffle/goirc/client"
	"pgregory.net/rapid"
)

// ---------------------------------------------------------------------------
// C19: capability negotiation
// ---------------------------------------------------------------------------

type c19Scenario struct {
	Wanted     []string `json:"wanted"`
	Sasl       string   `json:"sasl"` // "", PLAIN, EXTERNAL
	Authzid    Q        `json:"authzid"`
	User       Q        `json:"user"`
	Pass       Q        `json:"pass"`
	Advertised []string `json:"advertised"`
	Reply      string   `json:"reply"`   // ack, nak, ack_then_minus, ack_split, ack_reversed, two_ls
	Outcome    string   `json:"outcome"` // 903, 904, 908
	Stray      bool     `json:"stray_authenticate"`
	EarlyEnd   bool     `json:"early_outcome"` // the server ends SASL (outcome numerics) without ever asking for the data
	Cycles     int      `json:"cycles"`        // the same client negotiates again after a reconnect (0/1 = once)
	LateNak    bool     `json:"late_nak"`      // after everything else the server NAKs a request naming a capability that is held
	ReAck      bool     `json:"re_ack"`        // the server acknowledges the same capabilities once more (sasl then starts again)
	// AbortAt (sessions leg): the link drops at this point of the negotiation: "" never, "ls" before the server
	// answered CAP LS, "req" after the request, "mech" after AUTHENTICATE <mechanism>, "data" after the SASL data
	AbortAt string `json:"abort_at,omitempty"`
	// AppReq (sessions leg): after the negotiation the application itself requests a capability the
	// server never listed, through Conn.Cap, and the server acknowledges it
	AppReq bool `json:"app_req,omitempty"`
	// Relist: after an ACK that switched a capability off, the server lists its capabilities once more
	Relist bool `json:"relist,omitempty"`
	// StrayReq: the server sends "AUTHENTICATE +" while the client's request is still unanswered, and
	// again after refusing it (nothing has been acknowledged: no SASL data may be sent)
	StrayReq bool `json:"stray_req,omitempty"`
	// WantSasl: the application lists "sasl" among the capabilities it wants without configuring a
	// SASL mechanism: the capability is requested like any other and an ACK of it starts nothing
	WantSasl bool `json:"want_sasl,omitempty"`
}

// errC19Abort is how a negotiation script says "the link drops here" (not a violation).
var errC19Abort = &Violation{Property: "C19", Key: "abort"}

// capModel is the negotiation model written from the property statement.
type capModel struct {
	wanted     map[string]bool
	mech       string
	ir         []byte
	advertised map[string]bool
	held       map[string]bool
	awaiting   bool // sasl acknowledged, mechanism announced, waiting for the server's "+"
	startFails bool // the configured mechanism cannot be started (its Start() reports an error)
}

// brokenSasl is an application-supplied SASL mechanism that cannot start (say, its credentials file is
// unreadable): sasl is still wanted, but an acknowledgement of it starts nothing.
type brokenSasl struct{}

func (brokenSasl) Start() (string, []byte, error) { return "", nil, fmt.Errorf("credentials unavailable") }
func (brokenSasl) Next([]byte) ([]byte, error)    { return nil, fmt.Errorf("not started") }

func newCapModel(sc *c19Scenario) *capModel {
	m := &capModel{wanted: map[string]bool{}, advertised: map[string]bool{}, held: map[string]bool{}, mech: sc.Sasl}
	for _, c := range sc.Wanted {
		m.wanted[c] = true
	}
	if sc.WantSasl {
		m.wanted["sasl"] = true
	}
	switch sc.Sasl {
	case "PLAIN":
		m.wanted["sasl"] = true
		m.ir = []byte(string(sc.Authzid) + "\x00" + string(sc.User) + "\x00" + string(sc.Pass))
	case "EXTERNAL":
		m.wanted["sasl"] = true
		m.ir = []byte(string(sc.Authzid))
	case "BROKEN":
		m.wanted["sasl"] = true
		m.startFails = true
	}
	return m
}

// each on* returns what the client must put on the wire: for REQ the set of
// capabilities (compared as a set across lines), otherwise exact lines.
func (m *capModel) onLS(caps []string) (req []string, lines []string) {
	for _, c := range caps {
		m.advertised[c] = true
	}
	for c := range m.wanted {
		if m.advertised[c] {
			req = append(req, c)
		}
	}
	sort.Strings(req)
	if len(req) == 0 {
		return nil, []string{"CAP END"}
	}
	return req, nil
}

func (m *capModel) onACK(caps []string) []string {
	start := false
	for _, c := range caps {
		if strings.HasPrefix(c, "-") {
			m.held[c[1:]] = false
		} else {
			m.held[c] = true
			if c == "sasl" && m.mech != "" && !m.startFails {
				start = true
			}
		}
	}
	if start {
		m.awaiting = true
		return []string{"AUTHENTICATE " + m.mech}
	}
	return []string{"CAP END"}
}

func (m *capModel) onAuthPlus() []string {
	if !m.awaiting {
		return nil // not acknowledged, or the data went out already: nothing may be sent
	}
	m.awaiting = false
	if len(m.ir) == 0 {
		return []string{"AUTHENTICATE +"}
	}
	return []string{"AUTHENTICATE " + base64.StdEncoding.EncodeToString(m.ir)}
}

func runC19(sc *c19Scenario) *Violation {
	tc := newTestClient(cliOpts{Flood: true, Configure: func(cfg *client.Config) {
		cfg.EnableCapabilityNegotiation = true
		cfg.Capabilites = append([]string{}, sc.Wanted...)
		if sc.WantSasl {
			cfg.Capabilites = append(cfg.Capabilites, "sasl")
		}
		switch sc.Sasl {
		case "PLAIN":
			cfg.Sasl = sasl.NewPlainClient(string(sc.Authzid), string(sc.User), string(sc.Pass))
		case "EXTERNAL":
			cfg.Sasl = sasl.NewExternalClient(string(sc.Authzid))
		case "BROKEN":
			cfg.Sasl = brokenSasl{}
		}
	}})
	defer tc.shutdown()
	m := newCapModel(sc)
	disc := make(chan struct{}, 4)
	tc.C.HandleFunc(client.DISCONNECTED, func(*client.Conn, *client.Line) { disc <- struct{}{} })
	cycles := sc.Cycles
	if cycles < 1 {
		cycles = 1
	}
	for cycle := 0; cycle < cycles; cycle++ {
		if cycle > 0 {
			go tc.C.Close()
			select {
			case <-disc:
			case <-time.After(stallTimeout()):
				return violationf("C19", "no DISCONNECTED between negotiation cycles")
			}
			waitCond(stallTimeout(), func() bool { n, _, _ := connGoroutines(tc.C); return n == 0 })
			// a new connection starts a new negotiation: nothing its predecessor's server advertised or
			// enabled carries over
			m.awaiting = false
			m.advertised, m.held = map[string]bool{}, map[string]bool{}
		}
		if v := runC19Once(sc, tc, m, cycle); v != nil {
			if cycle > 0 {
				v.Msg = fmt.Sprintf("negotiation %d on the same client (after a reconnect): %s", cycle+1, v.Msg)
			}
			return v
		}
	}
	return nil
}

func runC19Once(sc *c19Scenario, tc *testClient, m *capModel, cycle int) *Violation {
	if err := tc.connect(); err != nil {
		return violationf("C19", "connect: %v", err)
	}
	conn := tc.conn()
	pos := 0
	sawEnd := false
	// step sends server lines and returns the CAP / AUTHENTICATE lines the client wrote in response
	step := func(lines ...string) ([]string, *Violation) {
		for _, l := range lines {
			conn.SendLine(l)
		}
		if !tc.syncOut(stallTimeout()) {
			return nil, violationf("C19", "client stopped answering")
		}
		w := conn.Written()
		ls, _ := SplitCRLF(w[pos:])
		pos = len(w)
		var out []string
		for _, l := range ls {
			if strings.HasPrefix(l, "CAP ") || strings.HasPrefix(l, "AUTHENTICATE ") {
				out = append(out, l)
				if l == "CAP END" {
					sawEnd = true
				} else {
					sawEnd = false
				}
			}
		}
		return out, nil
	}
	expectLines := func(where string, got, want []string) *Violation {
		if strings.Join(got, "\n") != strings.Join(want, "\n") {
			return violationf("C19", "%s: client sent %q, want %q (wanted %v sasl=%q advertised %v)", where, got, want, sc.Wanted, sc.Sasl, sc.Advertised)
		}
		return nil
	}
	checkHeld := func(where string) *Violation {
		for _, c := range append(append([]string{}, sc.Wanted...), append(sc.Advertised, "sasl", "zzz", "app-cap", "a", "b", "z")...) {
			if got, want := tc.C.SupportsCapability(c), m.advertised[c]; got != want {
				return violationf("C19", "%s: SupportsCapability(%q) = %v, advertised: %v", where, c, got, want)
			}
			if got, want := tc.C.HasCapability(c), m.held[c]; got != want {
				return violationf("C19", "%s: HasCapability(%q) = %v, latest acknowledgement says %v", where, c, got, want)
			}
		}
		return nil
	}
	got, v := step()
	if v != nil {
		return v
	}
	if v := expectLines("on connect", got, []string{"CAP LS"}); v != nil {
		return v
	}
	if sc.AbortAt == "ls" {
		return errC19Abort
	}
	if sc.Stray {
		got, v := step("AUTHENTICATE +")
		if v != nil {
			return v
		}
		if v := expectLines("stray AUTHENTICATE + before any acknowledgement", got, m.onAuthPlus()); v != nil {
			return v
		}
	}
	if sc.Reply == "two_ls" && len(sc.Advertised) >= 2 {
		// the server advertises in two rounds: what was advertised first is still advertised
		first := sc.Advertised[:len(sc.Advertised)-1]
		req1, want1 := m.onLS(first)
		got1, v := step(":irc.server CAP * LS :" + strings.Join(first, " "))
		if v != nil {
			return v
		}
		if len(req1) == 0 {
			if v := expectLines("after the first LS round (empty intersection)", got1, want1); v != nil {
				return v
			}
		} else {
			var asked []string
			for _, l := range got1 {
				if !strings.HasPrefix(l, "CAP REQ :") {
					return violationf("C19", "after the first LS round: client sent %q, want only CAP REQ lines", got1)
				}
				asked = append(asked, strings.Fields(l[len("CAP REQ :"):])...)
			}
			sort.Strings(asked)
			if strings.Join(asked, " ") != strings.Join(req1, " ") {
				return violationf("C19", "after the first LS round: client requested %v, want %v", asked, req1)
			}
		}
	}
	last := sc.Advertised
	if sc.Reply == "two_ls" && len(sc.Advertised) >= 2 {
		last = sc.Advertised[len(sc.Advertised)-1:]
	}
	req, wantLines := m.onLS(last)
	got, v = step(":irc.server CAP * LS :" + strings.Join(last, " "))
	if v != nil {
		return v
	}
	var reqLines [][]string
	if len(req) == 0 {
		if v := expectLines("after LS (empty intersection)", got, wantLines); v != nil {
			return v
		}
	} else {
		var asked []string
		for _, l := range got {
			if !strings.HasPrefix(l, "CAP REQ :") {
				return violationf("C19", "after LS: client sent %q, want only CAP REQ lines asking for %v", got, req)
			}
			if len(l) > 510 {
				return violationf("C19", "CAP REQ line of %d bytes exceeds the protocol's 510", len(l))
			}
			caps := strings.Fields(l[len("CAP REQ :"):])
			reqLines = append(reqLines, caps)
			asked = append(asked, caps...)
		}
		sort.Strings(asked)
		if strings.Join(asked, " ") != strings.Join(req, " ") {
			return violationf("C19", "after LS: client requested %v, want exactly wanted∩advertised = %v (wanted %v sasl=%q, advertised %v)", asked, req, sc.Wanted, sc.Sasl, sc.Advertised)
		}
	}
	if v := checkHeld("after LS"); v != nil {
		return v
	}
	if len(req) == 0 {
		if !sawEnd {
			return violationf("C19", "negotiation did not end with CAP END")
		}
		return nil
	}
	if sc.AbortAt == "req" {
		return errC19Abort
	}
	if sc.StrayReq {
		got, v := step("AUTHENTICATE +")
		if v != nil {
			return v
		}
		if v := expectLines("AUTHENTICATE + while the request is still unanswered (sasl not acknowledged)", got, m.onAuthPlus()); v != nil {
			return v
		}
	}
	ack := func(where string, caps []string) *Violation {
		want := m.onACK(caps)
		got, v := step(":irc.server CAP me ACK :" + strings.Join(caps, " "))
		if v != nil {
			return v
		}
		if v := expectLines(where, got, want); v != nil {
			return v
		}
		return checkHeld(where)
	}
	saslFlow := func() *Violation {
		if !m.awaiting {
			return nil
		}
		if sc.AbortAt == "mech" {
			return errC19Abort
		}
		if !sc.EarlyEnd {
			want := m.onAuthPlus()
			got, v := step("AUTHENTICATE +")
			if v != nil {
				return v
			}
			if v := expectLines("server asked for SASL data", got, want); v != nil {
				return v
			}
			if sc.AbortAt == "data" {
				return errC19Abort
			}
		} else {
			m.awaiting = false // the exchange is over without the data ever being requested
		}
		var lines []string
		switch sc.Outcome {
		case "903":
			lines = []string{":irc.server 900 me me!u@h acct :You are now logged in", ":irc.server 903 me :SASL authentication successful"}
		case "904":
			lines = []string{":irc.server 904 me :SASL authentication failed"}
		default:
			lines = []string{":irc.server 908 me PLAIN,EXTERNAL :are available SASL mechanisms", ":irc.server 904 me :SASL authentication failed"}
		}
		for _, l := range lines {
			got, v := step(l)
			if v != nil {
				return v
			}
			wantEnd := !strings.Contains(l, " 900 ")
			if wantEnd && strings.Join(got, "|") != "CAP END" {
				return violationf("C19", "after %q the client sent %q, want CAP END", l, got)
			}
			if !wantEnd && len(got) != 0 {
				return violationf("C19", "after %q the client sent %q, want nothing", l, got)
			}
		}
		return nil
	}
	switch sc.Reply {
	case "nak":
		got, v := step(":irc.server CAP me NAK :" + strings.Join(req, " "))
		if v != nil {
			return v
		}
		if v := expectLines("after NAK", got, []string{"CAP END"}); v != nil {
			return v
		}
		if v := checkHeld("after NAK"); v != nil {
			return v
		}
		if sc.StrayReq {
			got, v := step("AUTHENTICATE +")
			if v != nil {
				return v
			}
			if v := expectLines("AUTHENTICATE + after the request was refused (sasl not acknowledged)", got, m.onAuthPlus()); v != nil {
				return v
			}
		}
	case "ack_split":
		// one acknowledgement per REQ line; a single REQ line is acknowledged in two halves
		parts := reqLines
		if len(parts) == 1 && len(parts[0]) >= 2 {
			h := len(parts[0]) / 2
			parts = [][]string{parts[0][:h], parts[0][h:]}
		}
		for i, p := range parts {
			if v := ack(fmt.Sprintf("after ACK part %d", i+1), p); v != nil {
				return v
			}
			if v := saslFlow(); v != nil {
				return v
			}
		}
	default:
		ackCaps := req
		if sc.Reply == "ack_reversed" {
			// a server may acknowledge in any order
			ackCaps = append([]string{}, req...)
			for i, j := 0, len(ackCaps)-1; i < j; i, j = i+1, j-1 {
				ackCaps[i], ackCaps[j] = ackCaps[j], ackCaps[i]
			}
		}
		if v := ack("after ACK", ackCaps); v != nil {
			return v
		}
		if v := saslFlow(); v != nil {
			return v
		}
		if sc.Reply == "ack_then_minus" {
			if v := ack("after a later ACK disabling a capability", []string{"-" + req[0]}); v != nil {
				return v
			}
			if sc.Relist {
				// the same list again: what is wanted and advertised is asked for again, the capability
				// that was switched off included
				req2, _ := m.onLS(sc.Advertised)
				got, v := step(":irc.server CAP * LS :" + strings.Join(sc.Advertised, " "))
				if v != nil {
					return v
				}
				var asked []string
				for _, l := range got {
					if !strings.HasPrefix(l, "CAP REQ :") {
						return violationf("C19", "after a second LS: client sent %q, want only CAP REQ lines asking for %v", got, req2)
					}
					asked = append(asked, strings.Fields(l[len("CAP REQ :"):])...)
				}
				sort.Strings(asked)
				if strings.Join(asked, " ") != strings.Join(req2, " ") {
					return violationf("C19", "after a capability was switched off and the server listed its capabilities again: client requested %v, want exactly wanted∩advertised = %v", asked, req2)
				}
				if v := ack("after the ACK of the repeated request", req2); v != nil {
					return v
				}
				if v := saslFlow(); v != nil {
					return v
				}
			}
		}
	}
	if sc.ReAck && sc.Reply != "nak" {
		// a repeated acknowledgement: sasl (if configured and named) starts again and must again be brought to an end
		early := sc.EarlyEnd
		sc.EarlyEnd = false
		v := ack("after a repeated ACK", req)
		if v == nil {
			v = saslFlow()
		}
		sc.EarlyEnd = early
		if v != nil {
			return v
		}
	}
	if sc.LateNak {
		// a refused later request names a capability that is held: nothing changes on the server
		got, v := step(":irc.server CAP me NAK :" + req[0] + " not-offered")
		if v != nil {
			return v
		}
		if v := expectLines("after a late NAK", got, []string{"CAP END"}); v != nil {
			return v
		}
		if v := checkHeld("after a late NAK naming a held capability"); v != nil {
			return v
		}
	}
	if !sawEnd {
		return violationf("C19", "script finished but the last negotiation line the client sent is not CAP END")
	}
	if sc.AppReq {
		tc.C.Cap("REQ", "app-cap")
		got, v := step()
		if v != nil {
			return v
		}
		if v := expectLines("application called Cap(REQ, app-cap)", got, []string{"CAP REQ :app-cap"}); v != nil {
			return v
		}
		if v := ack("after the server acknowledged the application's own request", []string{"app-cap"}); v != nil {
			return v
		}
	}
	return nil
}

// ---------------------------------------------------------------------------
// sessions leg: several negotiations on one client, the configuration changed
// through Config() in between, links that drop in the middle of a negotiation
// ---------------------------------------------------------------------------

type c19Session struct {
	Rounds []c19Scenario `json:"rounds"`
	Drops  []string      `json:"drops"` // how the link of round k ends: close, eof
}

// c19Configure installs the round's settings. The capability list is handed over as a slice with spare
// capacity (the application keeps the longer list it was cut from); that list is returned.
func c19Configure(cfg *client.Config, sc *c19Scenario) []string {
	cfg.EnableCapabilityNegotiation = true
	full := append([]string{}, sc.Wanted...)
	if sc.WantSasl {
		full = append(full, "sasl")
	}
	nw := len(full)
	full = append(full, "spare-one", "spare-two")
	cfg.Capabilites = full[:nw]
	switch sc.Sasl {
	case "PLAIN":
		cfg.Sasl = sasl.NewPlainClient(string(sc.Authzid), string(sc.User), string(sc.Pass))
	case "EXTERNAL":
		cfg.Sasl = sasl.NewExternalClient(string(sc.Authzid))
	case "BROKEN":
		cfg.Sasl = brokenSasl{}
	default:
		cfg.Sasl = nil
	}
	return full
}

func c19SpareIntact(full []string, wanted int) bool {
	return len(full) == wanted+2 && full[wanted] == "spare-one" && full[wanted+1] == "spare-two"
}

func runC19Session(ss *c19Session) *Violation {
	var full []string
	tc := newTestClient(cliOpts{Flood: true, Configure: func(cfg *client.Config) { full = c19Configure(cfg, &ss.Rounds[0]) }})
	defer tc.shutdown()
	disc := make(chan struct{}, 8)
	tc.C.HandleFunc(client.DISCONNECTED, func(*client.Conn, *client.Line) { disc <- struct{}{} })
	var prev *capModel
	for k := range ss.Rounds {
		sc := &ss.Rounds[k]
		if k > 0 {
			// the application reconfigures the existing client before it connects again
			full = c19Configure(tc.C.Config(), sc)
		}
		m := newCapModel(sc)
		_ = prev // capabilities are a property of one connection: nothing is carried over
		v := runC19Once(sc, tc, m, k)
		if v != nil && v != errC19Abort {
			v.Msg = fmt.Sprintf("negotiation %d of %d on the same client: %s", k+1, len(ss.Rounds), v.Msg)
			return v
		}
		prev = m
		nw := len(sc.Wanted)
		if sc.WantSasl {
			nw++
		}
		if !c19SpareIntact(full, nw) {
			return violationf("C19", "negotiation %d: the application's own capability list was written to beyond the part handed to the client: %q", k+1, full)
		}
		// the link ends
		if ss.Drops[k] == "eof" {
			tc.conn().EOFNow()
		} else {
			go tc.C.Close()
		}
		select {
		case <-disc:
		case <-time.After(stallTimeout()):
			return violationf("C19", "no DISCONNECTED after negotiation %d", k+1)
		}
		waitCond(stallTimeout(), func() bool { n, _, _ := connGoroutines(tc.C); return n == 0 })
	}
	return nil
}

func genC19Session(t *rapid.T) *c19Session {
	ss := &c19Session{}
	n := rapid.IntRange(2, 3).Draw(t, "rounds")
	for k := 0; k < n; k++ {
		sc := c19Scenario{Sasl: rapid.SampledFrom([]string{"", "PLAIN", "PLAIN", "EXTERNAL", "BROKEN"}).Draw(t, "sasl"), Authzid: "", User: "user", Pass: "p w",
			Reply:   rapid.SampledFrom([]string{"ack", "ack", "nak", "ack_split", "ack_reversed", "two_ls", "ack_then_minus"}).Draw(t, "reply"),
			Outcome: rapid.SampledFrom([]string{"903", "904", "908"}).Draw(t, "outcome"),
			Stray:   rapid.IntRange(0, 3).Draw(t, "stray") == 0, EarlyEnd: rapid.IntRange(0, 3).Draw(t, "early_end") == 0,
			LateNak: rapid.IntRange(0, 4).Draw(t, "late_nak") == 0, ReAck: rapid.IntRange(0, 4).Draw(t, "re_ack") == 0,
			AppReq: rapid.IntRange(0, 3).Draw(t, "app_req") == 0, Relist: rapid.Bool().Draw(t, "relist"), StrayReq: rapid.IntRange(0, 2).Draw(t, "stray_req") == 0}
		sc.WantSasl = sc.Sasl == "" && rapid.Bool().Draw(t, "want_sasl")
		for _, c := range []string{"a", "b", "z"} {
			if rapid.Bool().Draw(t, "wanted_"+c) {
				sc.Wanted = append(sc.Wanted, c)
			}
		}
		for _, c := range []string{"a", "b", "z", "sasl", "sasl"} {
			if rapid.Bool().Draw(t, "advertised_"+c) && !(c == "sasl" && len(sc.Advertised) > 0 && sc.Advertised[len(sc.Advertised)-1] == "sasl") {
				sc.Advertised = append(sc.Advertised, c)
			}
		}
		if k < n-1 && rapid.IntRange(0, 2).Draw(t, "aborted") == 0 {
			sc.AbortAt = rapid.SampledFrom([]string{"ls", "req", "mech", "mech", "data"}).Draw(t, "abort_at")
		}
		ss.Rounds = append(ss.Rounds, sc)
		ss.Drops = append(ss.Drops, rapid.SampledFrom([]string{"close", "eof"}).Draw(t, "drop"))
	}
	return ss
}

func TestC19_Sessions(t *testing.T) {
	col := evid.New("C19", "sessions leg: 2..3 negotiations on one client over the universe {a,b,z,sasl}, each with its own wanted set / SASL mechanism (installed through Config() on the existing client), advertised set, server reply and SASL outcome; a negotiation may be cut short by the link dropping before the LS reply, after the request, after AUTHENTICATE <mechanism> or after the SASL data; the application may request a never-listed capability itself through Conn.Cap; oracle: the per-connection negotiation model; non-trivial = the rounds differ in wanted, advertised or mechanism, or one is cut short; distinct by scenario")
	defer finish(t, col)
	rapid.Check(t, func(t *rapid.T) {
		ss := genC19Session(t)
		v := runC19Session(ss)
		b, _ := json.Marshal(ss)
		nt := false
		cls := []string{}
		for k := range ss.Rounds {
			r := &ss.Rounds[k]
			if r.AbortAt != "" {
				nt = true
				cls = append(cls, "link_drops_at="+r.AbortAt)
			}
			if r.AppReq {
				cls = append(cls, "application_cap_req")
			}
			if k > 0 {
				p := &ss.Rounds[k-1]
				if fmt.Sprint(p.Wanted) != fmt.Sprint(r.Wanted) || fmt.Sprint(p.Advertised) != fmt.Sprint(r.Advertised) || p.Sasl != r.Sasl {
					nt = true
				}
				if p.Sasl != "" && r.Sasl == "" {
					cls = append(cls, "sasl_switched_off")
				}
			}
		}
		col.Case(string(b), nt, uniqStrings(cls)...)
		if len(b) < 900 {
			col.Sample(ss)
		}
		if v != nil {
			failRapid(t, "TestC19_Sessions", v, ss)
		}
	})
}

func TestC19_Sessions_Replay(t *testing.T) {
	var ss c19Session
	loadReplay(t, &ss)
	if v := runC19Session(&ss); v != nil {
		t.Fatalf("REPRODUCED %s", v.Msg)
	}
}

func (sc *c19Scenario) nontrivial() bool {
	inter := 0
	adv := map[string]bool{}
	for _, a := range sc.Advertised {
		adv[a] = true
	}
	want := append([]string{}, sc.Wanted...)
	if sc.Sasl != "" {
		want = append(want, "sasl")
	}
	for _, w := range want {
		if adv[w] {
			inter++
		}
	}
	return (inter > 0 && inter < len(want) && inter < len(sc.Advertised)) || (sc.Sasl != "" && adv["sasl"] && sc.Reply != "nak") || (sc.Reply == "ack_then_minus" && inter > 0)
}

func subsets(u []string) [][]string {
	var out [][]string
	for mask := 0; mask < 1<<len(u); mask++ {
		var s []string
		for i, x := range u {
			if mask&(1<<i) != 0 {
				s = append(s, x)
			}
		}
		out = append(out, s)
	}
	return out
}

func TestC19_Enum(t *testing.T) {
	col := evid.New("C19", "every combination of wanted subset of {a,b,z} x SASL none/PLAIN/EXTERNAL/a mechanism whose Start fails x advertised subset of {a,b,z,sasl} x server reply (ACK, NAK, ACK then ACK of '-cap', ACK split in two, ACK in reverse order, LS in two rounds) x SASL outcome (903, 904, 908+904) x stray AUTHENTICATE before the ACK, each run as a live session against the negotiation model; non-trivial = proper intersection, SASL started, or a '-cap' acknowledgement; distinct by construction")
	defer finish(t, col)
	shard, shards := envInt("VERIF_SHARD", 0), envInt("VERIF_SHARDS", 1)
	var total, nt int64
	i := 0
	// "z" sorts after "sasl": the order of names within a line matters to some implementations
	for _, wanted := range subsets([]string{"a", "b", "z"}) {
		for _, sm := range []string{"", "PLAIN", "EXTERNAL", "BROKEN"} {
			for _, adv := range subsets([]string{"a", "b", "z", "sasl"}) {
				for _, reply := range []string{"ack", "nak", "ack_then_minus", "ack_split", "ack_reversed", "two_ls"} {
					for _, outcome := range []string{"903", "904", "908"} {
						for _, stray := range []bool{false, true} {
							i++
							if i%shards != shard {
								continue
							}
							sc := &c19Scenario{Wanted: wanted, Sasl: sm, Authzid: "", User: "user", Pass: "p w", Advertised: adv, Reply: reply, Outcome: outcome, Stray: stray}
							// three more binary dimensions, spread over the enumeration rather than multiplied into it
							sc.EarlyEnd, sc.LateNak, sc.ReAck = i%3 == 0, i%5 == 0, i%7 == 0 || i%9 == 0
							sc.Relist = i%4 == 1
							sc.StrayReq = i%11 < 4
							sc.WantSasl = sm == "" && i%13 < 6
							if i%2 == 0 {
								sc.Cycles = 2
							}
							if sm == "EXTERNAL" && len(wanted)%2 == 1 {
								sc.Authzid = "ident"
							}
							total++
							if sc.nontrivial() {
								nt++
							}
							if total%1501 == 1 {
								col.Sample(sc)
							}
							if v := runC19(sc); v != nil {
								writeReplay("TestC19", v, sc)
								col.Enumerated(total, nt)
								t.Fatalf("VIOLATION C19: %s", v.Msg)
							}
						}
					}
				}
			}
		}
	}
	col.Enumerated(total, nt)
	col.Set("exhaustive_enum", true)
	col.Set("enum_sessions", total)
}

func genC19(t *rapid.T) *c19Scenario {
	// many long names so that CAP REQ is split over several lines
	n := rapid.IntRange(20, 120).Draw(t, "ncaps")
	var universe []string
	for i := 0; i < n; i++ {
		l := rapid.IntRange(5, 30).Draw(t, "caplen")
		name := fmt.Sprintf("cap%03d-", i) + strings.Repeat(string(rune('a'+i%26)), l)
		universe = append(universe, name[:l+2])
	}
	universe = uniqStrings(universe)
	sc := &c19Scenario{Sasl: rapid.SampledFrom([]string{"", "PLAIN", "EXTERNAL"}).Draw(t, "sasl"),
		Reply: rapid.SampledFrom([]string{"ack_split", "ack_split", "nak", "ack", "two_ls", "ack_reversed"}).Draw(t, "reply"), Outcome: rapid.SampledFrom([]string{"903", "904", "908"}).Draw(t, "outcome"),
		Stray: rapid.Bool().Draw(t, "stray"), EarlyEnd: rapid.Bool().Draw(t, "early_end"), LateNak: rapid.Bool().Draw(t, "late_nak"), ReAck: rapid.Bool().Draw(t, "re_ack"), Cycles: rapid.IntRange(1, 3).Draw(t, "cycles"), StrayReq: rapid.Bool().Draw(t, "stray_req")}
	sc.WantSasl = sc.Sasl == "" && rapid.Bool().Draw(t, "want_sasl")
	for _, c := range universe {
		switch rapid.IntRange(0, 3).Draw(t, "membership") {
		case 0:
			sc.Wanted = append(sc.Wanted, c)
		case 1:
			sc.Advertised = append(sc.Advertised, c)
		default:
			sc.Wanted = append(sc.Wanted, c)
			sc.Advertised = append(sc.Advertised, c)
		}
	}
	if rapid.Bool().Draw(t, "adv_sasl") {
		sc.Advertised = append(sc.Advertised, "sasl")
	}
	cred := func(label string) Q {
		b := rapid.SliceOfN(rapid.ByteRange(1, 255), 0, 40).Draw(t, label)
		return Q(string(b))
	}
	sc.Authzid, sc.User, sc.Pass = cred("authzid"), cred("user"), cred("pass")
	if rapid.IntRange(0, 3).Draw(t, "sized_response") == 0 {
		// initial responses whose base64 form is just below, at and above 400 and 800 bytes
		raw := rapid.SampledFrom([]int{297, 298, 299, 300, 301, 597, 598, 600, 601}).Draw(t, "response_len")
		sc.Authzid, sc.User = "", "u"
		sc.Pass = Q(strings.Repeat("p", raw-3))
		if sc.Sasl == "EXTERNAL" {
			sc.Authzid = Q(strings.Repeat("z", raw))
		}
	}
	if sc.Reply == "ack" || sc.Reply == "ack_reversed" {
		// a single ACK line would exceed the line length for large sets; keep the set small
		if len(sc.Advertised) > 12 {
			sc.Advertised = sc.Advertised[:12]
		}
	}
	return sc
}

func TestC19(t *testing.T) {
	col := evid.New("C19", "random sets of 20..120 capability names of 5..30 bytes (wanted only / advertised only / both) so that CAP REQ is split over several lines, each REQ line acknowledged separately; SASL PLAIN / EXTERNAL with arbitrary credential bytes; non-trivial = request needed >= 2 REQ lines or SASL started; distinct by scenario")
	defer finish(t, col)
	rapid.Check(t, func(t *rapid.T) {
		sc := genC19(t)
		v := runC19(sc)
		b, _ := json.Marshal(sc)
		both := 0
		adv := map[string]bool{}
		for _, a := range sc.Advertised {
			adv[a] = true
		}
		bytes := 0
		for _, w := range sc.Wanted {
			if adv[w] {
				both++
				bytes += len(w) + 1
			}
		}
		col.Case(string(b), bytes > 441 || (sc.Sasl != "" && adv["sasl"]), fmt.Sprintf("sasl=%s", sc.Sasl), "reply="+sc.Reply, fmt.Sprintf("multi_line_req=%v", bytes > 441))
		if both <= 3 {
			col.Sample(sc)
		}
		if v != nil {
			failRapid(t, "TestC19", v, sc)
		}
	})
}

func TestC19_Replay(t *testing.T) {
	var sc c19Scenario
	loadReplay(t, &sc)
	if v := runC19(&sc); v != nil {
		t.Fatalf("REPRODUCED %s", v.Msg)
	}
}

// TestC19_Regress replays, without the generator library, the histories behind the defects that were
// repaired in goirc (known_findings.json): they must stay repaired.
func TestC19_Regress(t *testing.T) {
	col := evid.New("C19", "regression leg: the minimal histories of repaired defects, replayed as plain scenarios")
	defer finish(t, col)
	// stale SASL initial response sent on the next connection after a stray AUTHENTICATE +
	d14 := &c19Scenario{Sasl: "PLAIN", User: "user", Pass: "p w", Advertised: []string{"sasl"}, Reply: "ack", Outcome: "904", Stray: true, EarlyEnd: true, Cycles: 2}
	if v := runC19(d14); v != nil {
		writeReplay("TestC19", v, d14)
		t.Fatalf("VIOLATION C19: %s", v.Msg)
	}
	col.Case("d14", true, "regression")
	// capabilities advertised / enabled on an earlier connection survive the reconnect
	d15 := &c19Session{Drops: []string{"close", "close"}, Rounds: []c19Scenario{
		{Wanted: []string{"a", "b"}, Advertised: []string{"a", "b"}, Reply: "ack", Outcome: "903", User: "user", Pass: "p w"},
		{Wanted: []string{"a", "b"}, Advertised: []string{"a"}, Reply: "ack", Outcome: "903", User: "user", Pass: "p w"},
	}}
	if v := runC19Session(d15); v != nil {
		writeReplay("TestC19_Sessions", v, d15)
		t.Fatalf("VIOLATION C19: %s", v.Msg)
	}
	col.Case("d15", true, "regression")
}

package props

import (
	"encoding/json"
	"fmt"
	"sync"
	"testing"
	"time"

	"verifharness/evid"

	"github.com/fluffle/goirc/client"
	"pgregory.net/rapid"
)

// ---------------------------------------------------------------------------
// C03 / C05, long-handler legs: "however long handlers take". One foreground
// handler works for seconds (a database write, an HTTP call) while the lines
// that follow are already queued. Scenarios of a batch run concurrently - they
// only sleep - so a batch costs as much wall-clock time as its longest one.
//   C03: the next line's handlers start only after every handler of the slow
//        line has returned, and lines are handled in wire order;
//   C05: when a handler starts the tracker reflects its line, and until the
//        slow handler returns it does not reflect the next one.
// ---------------------------------------------------------------------------

type longScenario struct {
	SleepMS  int  `json:"sleep_ms"`
	SlowLine int  `json:"slow_line"`    // 0-based index (of 3 JOIN lines) whose handler is the slow one
	SlowH    int  `json:"slow_handler"` // which of the two handlers per line sleeps
	Internal bool `json:"slow_on_welcome"` // additionally the CONNECTED handler takes SleepMS/2 (it runs inside the internal phase of 001)
	// TailEOF: a fourth JOIN line arrives WITHOUT its line terminator and the server hangs up right behind
	// it, all while the slow handler is still at work. Whether that last fragment is dropped or handled is
	// open; if it is handled, then as a line like any other: after the earlier ones, not beside them.
	TailEOF bool `json:"tail_eof,omitempty"`
	TailCR  bool `json:"tail_cr,omitempty"` // the fragment ends in a bare CR
}

type longVerdict struct {
	order   string // C03-type finding ("" = none)
	tracker string // C05-type finding
}

func runLong(sc *longScenario) (lv longVerdict, err *Violation) {
	tc := newTestClient(cliOpts{Flood: true, Tracking: true, Nick: "me"})
	defer tc.shutdown()
	nicks := []string{"ua", "ub", "uc"}
	if sc.TailEOF {
		nicks = append(nicks, "ud")
	}
	var mu sync.Mutex
	var log []string
	open := map[string]int{} // nick -> handlers currently inside
	done := map[string]int{}
	note := func(f *string, format string, a ...interface{}) {
		if *f == "" {
			*f = fmt.Sprintf(format, a...)
		}
	}
	present := func(c *client.Conn, nick string) bool {
		t := c.StateTracker()
		if t == nil {
			return false
		}
		_, on := t.IsOn("#c", nick)
		return t.GetNick(nick) != nil && on
	}
	for hi := 0; hi < 2; hi++ {
		hi := hi
		tc.C.HandleFunc("JOIN", func(c *client.Conn, l *client.Line) {
			idx := -1
			for i, n := range nicks {
				if n == l.Nick {
					idx = i
				}
			}
			if idx < 0 {
				return
			}
			mu.Lock()
			log = append(log, fmt.Sprintf("enter %s#%d", l.Nick, hi))
			for i := 0; i < idx; i++ {
				if done[nicks[i]] < 2 {
					note(&lv.order, "a handler for line %d (%s) started while only %d of 2 handlers of line %d (%s) had finished (slow handler: line %d, %d ms)", idx+1, l.Nick, done[nicks[i]], i+1, nicks[i], sc.SlowLine+1, sc.SleepMS)
				}
			}
			for i := idx + 1; i < len(nicks); i++ {
				if open[nicks[i]] > 0 || done[nicks[i]] > 0 {
					note(&lv.order, "a handler for line %d (%s) started after handlers of the later line %d had", idx+1, l.Nick, i+1)
				}
			}
			open[l.Nick]++
			mu.Unlock()
			if !present(c, l.Nick) {
				mu.Lock()
				note(&lv.tracker, "handler %d for line %d (%s JOIN #c) started but the tracker does not show %s on #c yet", hi, idx+1, l.Nick, l.Nick)
				mu.Unlock()
			}
			check := func(when string) {
				for j := idx + 1; j < len(nicks); j++ {
					if present(c, nicks[j]) {
						mu.Lock()
						note(&lv.tracker, "%s handler %d for line %d (%s JOIN #c, running for %d ms) the tracker already reflects the later line %d (%s is on #c)", when, hi, idx+1, l.Nick, sc.SleepMS, j+1, nicks[j])
						mu.Unlock()
					}
				}
			}
			check("at the start of")
			if idx == sc.SlowLine && hi == sc.SlowH {
				// look again every 100 ms while "working"
				deadline := time.Now().Add(time.Duration(sc.SleepMS) * time.Millisecond)
				step := 100 * time.Millisecond
				if sc.SleepMS < 1000 {
					step = time.Duration(sc.SleepMS) * time.Millisecond / 10
				}
				for time.Now().Before(deadline) {
					time.Sleep(step)
					check("during")
				}
			}
			check("at the end of")
			mu.Lock()
			open[l.Nick]--
			done[l.Nick]++
			log = append(log, fmt.Sprintf("exit %s#%d", l.Nick, hi))
			mu.Unlock()
		})
	}
	if sc.Internal {
		tc.C.HandleFunc(client.CONNECTED, func(c *client.Conn, l *client.Line) {
			time.Sleep(time.Duration(sc.SleepMS/2) * time.Millisecond)
		})
	}
	if e := tc.connect(); e != nil {
		return lv, violationf("C03", "connect: %v", e)
	}
	conn := tc.conn()
	conn.SendLine(":irc.server 001 me :Welcome me!ident@host")
	conn.SendLine(":me!ident@host JOIN #c")
	conn.SendLine(":irc.server 353 me = #c :me @op")
	wait := time.Duration(sc.SleepMS)*time.Millisecond + stallTimeout()
	if !tc.syncIn(wait) {
		return lv, violationf("C03", "long-handler leg: warm-up not processed")
	}
	if sc.TailEOF {
		disc := make(chan struct{}, 2)
		tc.C.HandleFunc(client.DISCONNECTED, func(*client.Conn, *client.Line) { disc <- struct{}{} })
		tail := ":ud!i@h JOIN #c"
		if sc.TailCR {
			tail += "\r"
		}
		conn.Send(":ua!i@h JOIN #c\r\n:ub!i@h JOIN #c\r\n:uc!i@h JOIN #c\r\n" + tail)
		// the slow handler is at work (or about to be) when the server goes away
		waitCond(wait, func() bool { mu.Lock(); defer mu.Unlock(); return open[nicks[sc.SlowLine]] > 0 || done[nicks[sc.SlowLine]] > 0 })
		conn.EOF()
		conn.FailWrites(fmt.Errorf("injected: broken pipe"))
		select {
		case <-disc:
		case <-time.After(wait):
			_, dump := goircGoroutines()
			return lv, &Violation{Property: "C03", Msg: "unterminated-last-line leg: DISCONNECTED never delivered after the server hung up", Detail: dump}
		}
		waitCond(wait, func() bool { mu.Lock(); defer mu.Unlock(); n := 0; for _, v := range open { n += v }; return n == 0 && dispatchFrames() == 0 })
		mu.Lock()
		defer mu.Unlock()
		for _, n := range nicks {
			if done[n] != 0 && done[n] != 2 {
				note(&lv.order, "line for %s: %d of its 2 handlers ran (log %v)", n, done[n], log)
			}
		}
		return lv, nil
	}
	conn.Send(":ua!i@h JOIN #c\r\n:ub!i@h JOIN #c\r\n:uc!i@h JOIN #c\r\n")
	if !tc.syncIn(wait) {
		_, dump := goircGoroutines()
		mu.Lock()
		defer mu.Unlock()
		return lv, &Violation{Property: "C03", Msg: fmt.Sprintf("long-handler leg: the lines after a %d ms handler were never all handled (log %v)", sc.SleepMS, log), Detail: dump}
	}
	// anything still running shows up now
	waitCond(wait, func() bool { mu.Lock(); defer mu.Unlock(); return done["ua"] == 2 && done["ub"] == 2 && done["uc"] == 2 })
	mu.Lock()
	defer mu.Unlock()
	for _, n := range nicks {
		if done[n] != 2 {
			note(&lv.order, "line for %s: %d handler invocations finished, want 2 (log %v)", n, done[n], log)
		}
	}
	return lv, nil
}

func genLongBatch(t *rapid.T) []*longScenario {
	durs := []int{5300, 6400}
	if thorough() {
		durs = []int{5300, 6400, 10500, 16000, 31000, 61500}
	}
	var batch []*longScenario
	for _, d := range durs {
		batch = append(batch, &longScenario{SleepMS: d + rapid.IntRange(0, 300).Draw(t, "extra_ms"), SlowLine: rapid.IntRange(0, 1).Draw(t, "slow_line"), SlowH: rapid.IntRange(0, 1).Draw(t, "slow_handler"), Internal: rapid.IntRange(0, 3).Draw(t, "slow_welcome") == 0})
	}
	return batch
}

func longLeg(t *testing.T, prop string) {
	what := map[string]string{
		"C03": "long-handler leg: a foreground handler that works for 5.3-6.7 s (thorough: up to 62 s) on one of three queued JOIN lines, two handlers per line, optionally a slow CONNECTED handler; oracle: a line's handlers start only after both handlers of every earlier line returned, in wire order, all invoked; non-trivial = every scenario; distinct by scenario",
		"C05": "long-handler leg: tracked client on #c, three users join in one burst, one handler works for 5.3-6.7 s (thorough: up to 62 s) and looks at the tracker every 100 ms; oracle: at handler entry the joining user is on #c, and until the handler of line k returns the user of line k+1 is not; non-trivial = every scenario; distinct by scenario",
	}[prop]
	col := evid.New(prop, what)
	defer finish(t, col)
	rapid.Check(t, func(t *rapid.T) {
		batch := genLongBatch(t)
		type res struct {
			sc *longScenario
			lv longVerdict
			v  *Violation
		}
		out := make([]res, len(batch))
		var wg sync.WaitGroup
		for i, sc := range batch {
			wg.Add(1)
			go func(i int, sc *longScenario) {
				defer wg.Done()
				lv, v := runLong(sc)
				out[i] = res{sc, lv, v}
			}(i, sc)
		}
		wg.Wait()
		for _, r := range out {
			b, _ := json.Marshal(r.sc)
			col.Case(string(b), true, fmt.Sprintf("sleep_s=%d", r.sc.SleepMS/1000), fmt.Sprintf("slow_line=%d", r.sc.SlowLine))
			col.Sample(r.sc)
			v := r.v
			if v == nil && prop == "C03" && r.lv.order != "" {
				v = violationf("C03", "long-handler leg: %s", r.lv.order)
			}
			if v == nil && prop == "C05" && r.lv.tracker != "" {
				v = violationf("C05", "long-handler leg: %s", r.lv.tracker)
			}
			if v != nil && v.Property != prop {
				continue // the sibling leg reports it
			}
			if v != nil {
				failRapid(t, "Test"+prop+"_LongHandler", v, r.sc)
			}
		}
	})
}

// tailLeg: many short scenarios of the unterminated-last-line shape, one at a time.
func tailLeg(t *testing.T, prop string) {
	col := evid.New(prop, "unterminated-last-line leg: tracked client on #c, three JOIN lines and a fourth without its terminator (optionally ending in a bare CR) in one burst, the server hanging up while a handler of line 1..3 is still at work for 20..300 ms; oracle ("+prop+"): "+map[string]string{"C03": "whatever is handled is handled in wire order, a line's handlers starting only after every earlier line's handlers returned, both handlers of a line or neither", "C05": "while a handler runs the tracker shows its own line's user on #c and none of the later lines' users"}[prop]+"; non-trivial = every scenario; distinct by scenario")
	defer finish(t, col)
	rapid.Check(t, func(t *rapid.T) {
		sc := &longScenario{SleepMS: rapid.SampledFrom([]int{20, 60, 150, 300}).Draw(t, "sleep_ms"), SlowLine: rapid.IntRange(0, 2).Draw(t, "slow_line"), SlowH: rapid.IntRange(0, 1).Draw(t, "slow_handler"), TailEOF: true, TailCR: rapid.Bool().Draw(t, "tail_cr")}
		lv, v := runLong(sc)
		b, _ := json.Marshal(sc)
		col.Case(string(b), true, fmt.Sprintf("slow_line=%d", sc.SlowLine), fmt.Sprintf("tail_cr=%v", sc.TailCR))
		col.Sample(sc)
		if v == nil && prop == "C03" && lv.order != "" {
			v = violationf("C03", "unterminated-last-line leg: %s", lv.order)
		}
		if v == nil && prop == "C05" && lv.tracker != "" {
			v = violationf("C05", "unterminated-last-line leg: %s", lv.tracker)
		}
		if v != nil && v.Property == prop {
			failRapid(t, "Test"+prop+"_TailEOF", v, sc)
		}
	})
}

func TestC03_TailEOF(t *testing.T) { tailLeg(t, "C03") }
func TestC05_TailEOF(t *testing.T) { tailLeg(t, "C05") }
func TestC03_TailEOF_Replay(t *testing.T) { longReplay(t, "C03") }
func TestC05_TailEOF_Replay(t *testing.T) { longReplay(t, "C05") }

func TestC03_LongHandler(t *testing.T) { longLeg(t, "C03") }
func TestC05_LongHandler(t *testing.T) { longLeg(t, "C05") }

func longReplay(t *testing.T, prop string) {
	var sc longScenario
	loadReplay(t, &sc)
	lv, v := runLong(&sc)
	if v != nil && v.Property == prop {
		t.Fatalf("REPRODUCED %s", v.Msg)
	}
	if prop == "C03" && lv.order != "" {
		t.Fatalf("REPRODUCED %s", lv.order)
	}
	if prop == "C05" && lv.tracker != "" {
		t.Fatalf("REPRODUCED %s", lv.tracker)
	}
}

func TestC03_LongHandler_Replay(t *testing.T) { longReplay(t, "C03") }
func TestC05_LongHandler_Replay(t *testing.T) { longReplay(t, "C05") }

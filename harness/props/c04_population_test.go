package props

import (
	"encoding/json"
	"fmt"
	"sort"
	"strings"
	"sync"
	"testing"

	"verifharness/evid"

	"github.com/fluffle/goirc/client"
	"pgregory.net/rapid"
)

// ---------------------------------------------------------------------------
// C04, population leg: many names, long handler lists, the same Handler value
// registered more than once, and a lot of add/remove churn on *other* names.
// Oracle: per event, every live registration runs exactly once.
// ---------------------------------------------------------------------------

type popH struct {
	id int
	mu *sync.Mutex
	n  map[int]int
}

func (h *popH) Handle(c *client.Conn, l *client.Line) {
	h.mu.Lock()
	h.n[h.id]++
	h.mu.Unlock()
}

type c04Pop struct {
	Perm      []string `json:"permanent_names"` // each gets 1..3 permanent handlers
	PermCount []int    `json:"permanent_counts"`
	BG        []bool   `json:"permanent_bg"`
	Dup       []int    `json:"dup"`        // per permanent name: 0 no duplicate, 1 the first handler value registered twice, 2 twice and the first registration removed again
	BigName   string   `json:"big_name"`   // one name with a long list
	BigN      int      `json:"big_n"`
	BigBG     bool     `json:"big_bg"`
	ChurnFrom int      `json:"churn_from"` // numerics ChurnFrom .. ChurnFrom+ChurnN-1 and ChurnWords get a handler that is removed again
	ChurnN    int      `json:"churn_n"`
	ChurnWords []string `json:"churn_words"`
	ChurnBG   bool     `json:"churn_bg"`
	Rounds    int      `json:"rounds"`
}

var popWords = []string{"PRIVMSG", "NOTICE", "JOIN", "PART", "QUIT", "TOPIC", "MODE", "KICK", "PING", "INVITE", "ERROR", "WALLOPS", "AWAY", "ACCOUNT", "CHGHOST", "TAGMSG", "BATCH", "qux", "Zed", "evx", "abcdefghijklmnopqrstuvwxyz"}

func genC04Pop(t *rapid.T) *c04Pop {
	sc := &c04Pop{Rounds: rapid.IntRange(1, 2).Draw(t, "rounds")}
	np := rapid.IntRange(6, 20).Draw(t, "npermanent")
	seen := map[string]bool{}
	for len(sc.Perm) < np {
		var name string
		if rapid.Bool().Draw(t, "numeric") {
			name = fmt.Sprintf("%03d", rapid.IntRange(0, 999).Draw(t, "num"))
		} else {
			name = rapid.SampledFrom(popWords).Draw(t, "word")
		}
		if seen[strings.ToLower(name)] {
			continue
		}
		seen[strings.ToLower(name)] = true
		sc.Perm = append(sc.Perm, name)
		sc.PermCount = append(sc.PermCount, rapid.IntRange(1, 3).Draw(t, "count"))
		sc.BG = append(sc.BG, rapid.IntRange(0, 3).Draw(t, "bg") == 0)
		sc.Dup = append(sc.Dup, rapid.SampledFrom([]int{0, 0, 1, 2}).Draw(t, "dup"))
	}
	sc.BigName = "EVBIG"
	sc.BigN = rapid.SampledFrom([]int{0, 0, 63, 64, 65, 66, 100, 129, 257}).Draw(t, "big_n")
	sc.BigBG = rapid.Bool().Draw(t, "big_bg")
	sc.ChurnFrom = rapid.IntRange(0, 400).Draw(t, "churn_from")
	sc.ChurnN = rapid.SampledFrom([]int{0, 50, 300, 600, 1000 - 400}).Draw(t, "churn_n")
	for _, w := range popWords {
		if !seen[strings.ToLower(w)] && rapid.Bool().Draw(t, "churn_word") {
			sc.ChurnWords = append(sc.ChurnWords, w)
		}
	}
	sc.ChurnBG = rapid.Bool().Draw(t, "churn_bg")
	return sc
}

func runC04Pop(sc *c04Pop) *Violation {
	tc := newTestClient(cliOpts{Flood: true})
	defer tc.shutdown()
	var mu sync.Mutex
	counts := map[int]int{}
	want := map[int]int{} // live registrations per handler id
	names := map[int]string{}
	nextID := 0
	newH := func(name string) *popH {
		nextID++
		names[nextID] = name
		return &popH{id: nextID, mu: &mu, n: counts}
	}
	reg := func(name string, h *popH, bg bool) client.Remover {
		want[h.id]++
		if bg {
			return tc.C.HandleBG(name, h)
		}
		return tc.C.Handle(name, h)
	}
	safeRemove := func(r client.Remover) (p interface{}) {
		defer func() { p = recover() }()
		r.Remove()
		return nil
	}
	// permanent population
	for i, name := range sc.Perm {
		var first *popH
		var firstRem client.Remover
		for k := 0; k < sc.PermCount[i]; k++ {
			h := newH(name)
			r := reg(name, h, sc.BG[i])
			if k == 0 {
				first, firstRem = h, r
			}
		}
		if sc.Dup[i] > 0 {
			// the same Handler value once more, under another spelling of the name
			second := reg(strings.ToLower(name), first, sc.BG[i])
			if sc.Dup[i] == 2 {
				if p := safeRemove(firstRem); p != nil {
					return violationf("C04", "Remove() of the first of two registrations of one Handler value for %q panicked: %v", name, p)
				}
				want[first.id]--
			}
			_ = second
		}
	}
	for k := 0; k < sc.BigN; k++ {
		reg(sc.BigName, newH(sc.BigName), sc.BigBG)
	}
	if err := tc.connect(); err != nil {
		return violationf("C04", "connect: %v", err)
	}
	fire := func(round int) *Violation {
		mu.Lock()
		for k := range counts {
			delete(counts, k)
		}
		mu.Unlock()
		evs := append([]string{}, sc.Perm...)
		if sc.BigN > 0 {
			evs = append(evs, sc.BigName)
		}
		for _, name := range evs {
			tc.conn().SendLine(fmt.Sprintf(":s!u@h %s tgt :x", strings.ToUpper(name)))
		}
		if !tc.syncIn(stallTimeout()) {
			return violationf("C04", "round %d: events never completed", round)
		}
		ok := waitCond(stallTimeout(), func() bool {
			if dispatchFrames() != 0 {
				return false
			}
			mu.Lock()
			defer mu.Unlock()
			for id, w := range want {
				if counts[id] < w {
					return false
				}
			}
			return true
		})
		mu.Lock()
		defer mu.Unlock()
		var ids []int
		for id := range want {
			ids = append(ids, id)
		}
		sort.Ints(ids)
		for _, id := range ids {
			if counts[id] != want[id] {
				return violationf("C04", "round %d: handler #%d for %q ran %d times for one event, want %d (one per live registration); %d names carry permanent handlers, the long list has %d, %d other names had a handler added and removed (all done: %v)", round, id, names[id], counts[id], want[id], len(sc.Perm), sc.BigN, sc.ChurnN+len(sc.ChurnWords), ok)
			}
		}
		return nil
	}
	if v := fire(0); v != nil {
		return v
	}
	for round := 1; round <= sc.Rounds; round++ {
		// churn on other names: a handler comes and goes
		var churn []string
		for k := 0; k < sc.ChurnN; k++ {
			churn = append(churn, fmt.Sprintf("%03d", (sc.ChurnFrom+k)%1000))
		}
		churn = append(churn, sc.ChurnWords...)
		perm := map[string]bool{}
		for _, p := range sc.Perm {
			perm[strings.ToLower(p)] = true
		}
		for _, name := range churn {
			if perm[strings.ToLower(name)] {
				continue
			}
			h := newH(name)
			delete(names, h.id)
			var r client.Remover
			if sc.ChurnBG {
				r = tc.C.HandleBG(name, h)
			} else {
				r = tc.C.Handle(name, h)
			}
			if p := safeRemove(r); p != nil {
				return violationf("C04", "Remove() of the only handler of %q panicked: %v", name, p)
			}
		}
		if v := fire(round); v != nil {
			return v
		}
	}
	return nil
}

func TestC04_Population(t *testing.T) {
	col := evid.New("C04", "population leg: 6..20 names (numerics and verbs) with 1..3 permanent handlers each (struct-pointer Handler values, some registered twice under two spellings, some with the first of the two registrations removed again), optionally one name with 63..257 handlers, and 0..1000 other names on which a handler is added and removed between rounds; oracle: per event every live registration runs exactly once; non-trivial = a long list, a duplicate registration or churn; distinct by scenario")
	defer finish(t, col)
	rapid.Check(t, func(t *rapid.T) {
		sc := genC04Pop(t)
		v := runC04Pop(sc)
		b, _ := json.Marshal(sc)
		dup := false
		for _, d := range sc.Dup {
			dup = dup || d > 0
		}
		cls := []string{}
		if sc.BigN >= 65 {
			cls = append(cls, "list_longer_than_64")
		}
		if dup {
			cls = append(cls, "same_handler_value_twice")
		}
		if sc.ChurnN+len(sc.ChurnWords) > 0 {
			cls = append(cls, "churn_on_other_names")
		}
		col.Case(string(b), sc.BigN > 0 || dup || sc.ChurnN > 0, cls...)
		if len(b) < 700 {
			col.Sample(sc)
		}
		if v != nil {
			failRapid(t, "TestC04_Population", v, sc)
		}
	})
}

func TestC04_Population_Replay(t *testing.T) {
	var sc c04Pop
	loadReplay(t, &sc)
	if v := runC04Pop(&sc); v != nil {
		t.Fatalf("REPRODUCED %s", v.Msg)
	}
}

package props

import (
	"crypto/tls"
	"crypto/x509"
	"fmt"
	"testing"
	"time"

	"verifharness/evid"

	"github.com/fluffle/goirc/client"
	"github.com/fluffle/goirc/logging"
	"pgregory.net/rapid"
)

// ---------------------------------------------------------------------------
// C20, TLS leg: real TLS on the loopback interface. The server's certificate
// is self-signed; the client trusts it, skips verification, or does neither
// (the connect then fails in the handshake) - nothing logged along any of
// these paths may contain the password.
// ---------------------------------------------------------------------------

type c20TLS struct {
	Pass   Q      `json:"pass"`
	Trust  string `json:"trust"` // none (verification fails), skip, pool
	CapNeg bool   `json:"capneg"`
	ViaTo  bool   `json:"via_connect_to"`
}

func runC20TLS(sc *c20TLS) (skipped bool, v *Violation) {
	cert, err := selfSigned()
	if err != nil {
		return true, nil
	}
	srv, err := newTCPServer("127.0.0.1:0", &tls.Config{Certificates: []tls.Certificate{cert}})
	if err != nil {
		return true, nil
	}
	defer srv.close()
	logging.SetLogger(c20Log)
	defer logging.SetLogger(nil)
	c20Log.take()
	pass := string(sc.Pass)
	cfg := client.NewConfig("me", "ident", "Real Name")
	cfg.Flood, cfg.PingFreq = true, 0
	cfg.EnableCapabilityNegotiation = sc.CapNeg
	cfg.SSL = true
	cfg.Timeout = 5 * time.Second
	switch sc.Trust {
	case "skip":
		cfg.SSLConfig = &tls.Config{InsecureSkipVerify: true}
	case "pool":
		pool := x509.NewCertPool()
		if leaf, err := x509.ParseCertificate(cert.Certificate[0]); err == nil {
			pool.AddCert(leaf)
		}
		cfg.SSLConfig = &tls.Config{RootCAs: pool, ServerName: "127.0.0.1"}
	default:
		cfg.SSLConfig = &tls.Config{ServerName: "127.0.0.1"} // nobody vouches for the certificate
	}
	addr := srv.ln.Addr().String()
	if !sc.ViaTo {
		cfg.Server, cfg.Pass = addr, pass
	}
	c := client.Client(cfg)
	disc := make(chan struct{}, 2)
	c.HandleFunc(client.DISCONNECTED, func(*client.Conn, *client.Line) { disc <- struct{}{} })
	if sc.ViaTo {
		err = c.ConnectTo(addr, pass)
	} else {
		err = c.Connect()
	}
	if err == nil {
		select {
		case <-srv.ready:
		case <-time.After(stallTimeout()):
		}
		go c.Close()
		select {
		case <-disc:
		case <-time.After(stallTimeout()):
		}
	} else if sc.Trust != "none" && sc.Trust != "pool" {
		return false, violationf("C20", "TLS leg %+v: Connect: %v", *sc, err)
	}
	time.Sleep(2 * time.Millisecond)
	for _, r := range c20Log.take() {
		if recContains(r, pass) {
			return false, violationf("C20", "TLS connection (trust=%s, connect error: %v): log record at level %s contains the password %q: format %q text %q", sc.Trust, err, r.Level, pass, r.Format, tail(r.Text, 300))
		}
	}
	return false, nil
}

func TestC20_TLS(t *testing.T) {
	col := evid.New("C20", "TLS leg: a real TLS server with a self-signed certificate on the loopback interface; the client verifies against nothing (the handshake fails), skips verification, or trusts the certificate; every log record is searched for the password; non-trivial always; distinct by scenario")
	defer finish(t, col)
	skippedN := 0
	rapid.Check(t, func(t *rapid.T) {
		sc := &c20TLS{Pass: Q(fmt.Sprintf("tls-%06x-secret", rapid.IntRange(0, 0xffffff).Draw(t, "nonce"))), Trust: rapid.SampledFrom([]string{"none", "none", "skip", "pool"}).Draw(t, "trust"),
			CapNeg: rapid.Bool().Draw(t, "capneg"), ViaTo: rapid.Bool().Draw(t, "via_to")}
		sk, v := runC20TLS(sc)
		if sk {
			skippedN++
		}
		col.Case(fmt.Sprintf("%+v", *sc), !sk, "tls_trust="+sc.Trust)
		col.Sample(sc)
		if v != nil {
			failRapid(t, "TestC20_TLS", v, sc)
		}
	})
	col.Set("tls_cases_skipped_no_listener", skippedN)
}

func TestC20_TLS_Replay(t *testing.T) {
	var sc c20TLS
	loadReplay(t, &sc)
	if _, v := runC20TLS(&sc); v != nil {
		t.Fatalf("REPRODUCED %s", v.Msg)
	}
}

"""Per-property legs, case counts and budgets used by ./check."""

EXPLORATION_ASSUMPTIONS = [
    "goirc is compiled from /repo's working tree as a dependency of the harness module (replace directive), under goirc's own go.mod language version",
    "the scripted in-memory server (harness/ircsim) stands in for the network; it is reached through the public Config.Proxy hook",
    "goroutine scheduling is perturbed (drawn delays, yields, GOMAXPROCS) but not controlled",
]

CHECKS = {
    "C01": {
        "level": "exploration",
        "assumptions": EXPLORATION_ASSUMPTIONS + ["expected components are computed from the generator's structured value by a reference printer, never by re-parsing"],
        "legs": [
            {"test": "TestC01_Regress", "quick": {"timeout": "5m"}, "thorough": {"timeout": "5m"}},
            {"test": "TestC01_Concurrent", "quick": {"checks": 3000, "timeout": "10m"}, "thorough": {"checks": 30000, "shards": 2, "timeout": "30m"}},
            {"test": "TestC01", "quick": {"checks": 60000, "timeout": "10m"},
             "thorough": {"checks": 250000, "shards": 8, "timeout": "60m"}},
        ],
    },
    "C02": {
        "level": "exploration",
        "assumptions": EXPLORATION_ASSUMPTIONS + ["a panic recovered by the library's own handler recovery (Config.Recover) is not a crash; a process death with a goirc frame on the panicking goroutine is"],
        "legs": [
            {"test": "TestC02_Regress", "quick": {"timeout": "5m"}, "thorough": {"timeout": "5m"}},
            {"test": "TestC02_Enum", "quick": {"env": {"VERIF_C02_N": 4}, "timeout": "10m"},
             "thorough": {"env": {"VERIF_C02_N": 5}, "shards": 13, "timeout": "30m"}},
            {"test": "TestC02_String", "quick": {"checks": 200000, "timeout": "10m"},
             "thorough": {"checks": 500000, "shards": 4, "timeout": "30m"}},
            {"test": "TestC02_Session", "quick": {"checks": 1000, "timeout": "10m"},
             "thorough": {"checks": 5000, "shards": 4, "timeout": "60m"}},
            {"test": "FuzzC02", "thorough": {"fuzz": "120s", "timeout": "10m"}},
        ],
    },
    "C08": {
        "level": "exploration",
        "assumptions": EXPLORATION_ASSUMPTIONS + ["the bytes of one API call are delimited on the wire by two marker lines whose alphabet is disjoint from the argument alphabet; only the calling goroutine sends"],
        "legs": [
            {"test": "TestC08", "quick": {"checks": 100000, "timeout": "10m"},
             "thorough": {"checks": 300000, "shards": 8, "timeout": "60m"}},
            {"test": "TestC08_Session", "quick": {"checks": 1500, "timeout": "10m"},
             "thorough": {"checks": 20000, "shards": 4, "timeout": "60m"}},
            {"test": "TestC08_LongStall", "quick": {"checks": 2, "timeout": "10m", "shrinktime": "10s"}, "thorough": {"checks": 12, "timeout": "20m", "shrinktime": "10s"}},
            {"test": "FuzzC08", "thorough": {"fuzz": "120s", "timeout": "10m"}},
        ],
    },
    "C11": {
        "level": "exploration",
        "assumptions": EXPLORATION_ASSUMPTIONS + ["pieces are read back from the wire transcript of the scripted server"],
        "legs": [
            {"test": "TestC11", "quick": {"checks": 60000, "timeout": "10m"},
             "thorough": {"checks": 200000, "shards": 8, "timeout": "60m"}},
            {"test": "TestC11_Concurrent", "quick": {"checks": 300, "timeout": "10m"},
             "thorough": {"checks": 5000, "shards": 4, "timeout": "60m"}},
            {"test": "FuzzC11", "thorough": {"fuzz": "120s", "timeout": "10m"}},
        ],
    },
    "C12": {
        "level": "model_checking",
        "assumptions": ["the reference model in harness/model/tracker.go is written from the property statement and the Tracker interface doc comments, not from the implementation's data structures",
                        "left open and therefore not generated except in last position: privilege change for a non-member, -k followed by argument-taking letters; the membership map of a snapshot returned by DelNick/DelChannel may be pre- or post-deletion"],
        "legs": [
            {"test": "TestC12_Large", "quick": {"checks": 25, "timeout": "10m"}, "thorough": {"checks": 300, "shards": 2, "timeout": "30m"}},
            {"test": "TestC12_Enum", "quick": {"env": {"VERIF_C12_NICKS": "me,a", "VERIF_C12_CHANS": "#x", "VERIF_C12_DEPTH2": 1, "VERIF_C12_RICH": 0}, "timeout": "10m"},
             "thorough": {"env": {"VERIF_C12_NICKS": "me,a,b", "VERIF_C12_CHANS": "#x,#y", "VERIF_C12_DEPTH2": 0, "VERIF_C12_RICH": 0}, "timeout": "60m"}},
            {"test": "TestC12_Enum", "thorough": {"env": {"VERIF_C12_NICKS": "me,a", "VERIF_C12_CHANS": "#x", "VERIF_C12_DEPTH2": 1, "VERIF_C12_RICH": 1}, "timeout": "60m"}},
            {"test": "TestC12", "quick": {"checks": 3000, "timeout": "10m"},
             "thorough": {"checks": 50000, "shards": 8, "timeout": "60m"}},
        ],
    },
    "C03": {
        "level": "exploration",
        "assumptions": EXPLORATION_ASSUMPTIONS + ["handler enter/exit are stamped with a global tick taken under one mutex; a correct implementation orders the stamps through its own synchronisation, so the oracle cannot raise a false alarm"],
        "legs": [
            {"test": "TestC03", "quick": {"checks": 1000, "timeout": "15m"},
             "thorough": {"checks": 5000, "shards": 4, "timeout": "60m"}},
            {"test": "TestC03_TailEOF", "quick": {"checks": 60, "timeout": "15m"}, "thorough": {"checks": 1500, "shards": 2, "timeout": "60m"}},
            {"test": "TestC03_LongHandler", "quick": {"checks": 1, "timeout": "15m", "shrinktime": "1s"},
             "thorough": {"checks": 2, "timeout": "60m", "shrinktime": "1s"}},
        ],
    },
    "C04": {
        "level": "exploration",
        "assumptions": EXPLORATION_ASSUMPTIONS + ["background dispatch is pinned with permanently registered sentinel handlers as the property's quantifier describes; an in-handler script that touches the other handler set first waits for that set's sentinel",
                                                  "quiescence of an event = no goroutine with a frame in hSet.dispatch / hNode.Handle"],
        "legs": [
            {"test": "TestC04_Population", "quick": {"checks": 400, "timeout": "15m"}, "thorough": {"checks": 4000, "shards": 2, "timeout": "60m"}},
            {"test": "TestC04_Teardown", "quick": {"checks": 300, "timeout": "15m"}, "thorough": {"checks": 5000, "shards": 2, "timeout": "60m"}},
            {"test": "TestC04_Turnover", "quick": {"checks": 400, "timeout": "15m"}, "thorough": {"checks": 6000, "shards": 2, "timeout": "60m"}},
            {"test": "TestC04", "quick": {"checks": 1000, "timeout": "15m"},
             "thorough": {"checks": 4000, "shards": 4, "timeout": "60m"}},
        ],
    },
    "C15": {
        "level": "exploration",
        "assumptions": EXPLORATION_ASSUMPTIONS + ["sharing is detected both by value (a scribbling handler's edits visible to another) and by pointer identity of the *Line, the Args backing array and the Tags map; the originals are kept reachable so addresses cannot be recycled"],
        "legs": [
            {"test": "TestC15", "quick": {"checks": 2000, "timeout": "15m"},
             "thorough": {"checks": 30000, "shards": 8, "timeout": "60m"}},
        ],
    },
    "C16": {
        "level": "exploration",
        "assumptions": EXPLORATION_ASSUMPTIONS + ["panic(nil) reaches recover() as *runtime.PanicNilError because the test binary's main module is go 1.23"],
        "legs": [
            {"test": "TestC16", "quick": {"checks": 1500, "timeout": "15m"},
             "thorough": {"checks": 5000, "shards": 4, "timeout": "60m"}},
        ],
    },
    "C09": {
        "level": "exploration",
        "assumptions": EXPLORATION_ASSUMPTIONS + ["every issued line is unique (sender id and index are part of it), so loss, duplication, alteration and reordering are all visible in the transcript"],
        "legs": [
            {"test": "TestC09_Transient", "quick": {"checks": 300, "timeout": "15m"}, "thorough": {"checks": 5000, "shards": 2, "timeout": "60m"}},
            {"test": "TestC09", "quick": {"checks": 500, "timeout": "15m"},
             "thorough": {"checks": 5000, "shards": 4, "timeout": "60m"}},
        ],
    },
    "C18": {
        "level": "exploration",
        "assumptions": EXPLORATION_ASSUMPTIONS + ["in the scripted-socket leg SSL configurations are checked for the dialled address only (on a dial that then fails); the loopback leg (TestC18_TCP) establishes real TCP and TLS sessions without a proxy and is skipped, counted, when 127.0.0.1:6667/6697 cannot be bound",
                                                  "between connect cycles the harness waits for the finished connection's goroutines to exit (their late Close is C07's subject)"],
        "legs": [
            {"test": "TestC18_Regress", "quick": {"timeout": "5m"}, "thorough": {"timeout": "5m"}},
            {"test": "TestC18", "quick": {"checks": 500, "timeout": "15m"},
             "thorough": {"checks": 5000, "shards": 4, "timeout": "60m"}},
            {"test": "TestC18_TCP", "quick": {"checks": 60, "timeout": "15m"},
             "thorough": {"checks": 600, "timeout": "60m"}},
        ],
    },
    "C20": {
        "level": "exploration",
        "assumptions": EXPLORATION_ASSUMPTIONS + ["the logger is package-global, so the check owns its process; a password is admitted only if a password-less control run of the same scenario produces no record containing it"],
        "legs": [
            {"test": "TestC20_TLS", "quick": {"checks": 150, "timeout": "10m"}, "thorough": {"checks": 2000, "timeout": "30m"}},
            {"test": "TestC20", "quick": {"checks": 600, "timeout": "15m"},
             "thorough": {"checks": 10000, "shards": 4, "timeout": "60m"}},
            {"test": "TestC20_RateLimited", "quick": {"checks": 1, "timeout": "15m", "shrinktime": "1s"},
             "thorough": {"checks": 10, "shards": 4, "timeout": "60m", "shrinktime": "1s"}},
        ],
    },
    "C06": {
        "level": "fault_enumeration",
        "assumptions": EXPLORATION_ASSUMPTIONS + ["faults are injected by the scripted socket (EOF, read error, write error, at the k-th call or on release) and by cancelling the connect context; coinciding endings are released from a barrier or staggered by drawn yields",
                                                  "quiescence = no goroutine with a frame in a *Conn method"],
        "legs": [
            {"test": "TestC06", "quick": {"checks": 2000, "timeout": "20m"},
             "thorough": {"checks": 6000, "shards": 4, "timeout": "90m"}},
            {"test": "TestC06_Reconnect", "quick": {"checks": 1000, "timeout": "20m"},
             "thorough": {"checks": 10000, "shards": 4, "timeout": "90m"}},
        ],
    },
    "C07": {
        "level": "fault_enumeration",
        "assumptions": EXPLORATION_ASSUMPTIONS + ["'bounded time' is decided as: DISCONNECTED delivered, every Close returned and goroutines gone within 20 s (typical: milliseconds; a rate-limited write may legitimately sleep one line charge <= 6.25 s); on expiry the goroutine dump is stored in the replay file",
                                                  "leak detection counts goroutines with a frame in a *Conn method (send, recv, runLoop, ping, close)"],
        "legs": [
            {"test": "TestC07_Regress", "quick": {"timeout": "10m"}, "thorough": {"timeout": "10m"}},
            {"test": "TestC07_RateLimitedReconnect", "quick": {"timeout": "10m"}, "thorough": {"timeout": "10m"}},
            {"test": "TestC07", "quick": {"checks": 250, "timeout": "30m", "env": {"VERIF_C07_RL_ONE_IN": 40, "VERIF_C07_RL_CYCLES": 1}},
             "thorough": {"checks": 2500, "shards": 8, "timeout": "120m", "env": {"VERIF_C07_RL_ONE_IN": 25, "VERIF_C07_RL_CYCLES": 2}}},
        ],
    },
    "C13": {
        "level": "exploration",
        "assumptions": EXPLORATION_ASSUMPTIONS + ["the model IRC network (harness/model/ircnet.go) defines 'conformant': it emits only what a server sends to this client, answers the client's MODE/WHO requests in lock-step, and keeps a separate record of what the protocol has revealed",
                                                  "not compared: user modes of any nick (WHO flags are outside the claim)"],
        "legs": [
            {"test": "TestC13", "quick": {"checks": 1500, "timeout": "15m"},
             "thorough": {"checks": 4000, "shards": 4, "timeout": "60m"}},
            {"test": "TestC13_Arbitrary", "quick": {"checks": 1500, "timeout": "15m"},
             "thorough": {"checks": 4000, "shards": 4, "timeout": "60m"}},
        ],
    },
    "C05": {
        "level": "exploration",
        "assumptions": EXPLORATION_ASSUMPTIONS + ["reference states come from a separate lock-step run of the same lines on a fresh tracked client without user handlers (differential oracle: independent of the C13 model being exact)",
                                                  "background handlers are checked in lock-step mode only; a multi-call snapshot is stable there because nothing else is in flight"],
        "legs": [
            {"test": "TestC05", "quick": {"checks": 800, "timeout": "15m"},
             "thorough": {"checks": 3000, "shards": 4, "timeout": "60m"}},
            {"test": "TestC05_TailEOF", "quick": {"checks": 60, "timeout": "15m"}, "thorough": {"checks": 1500, "shards": 2, "timeout": "60m"}},
            {"test": "TestC05_LongHandler", "quick": {"checks": 1, "timeout": "15m", "shrinktime": "1s"},
             "thorough": {"checks": 2, "timeout": "60m", "shrinktime": "1s"}},
        ],
    },
    "C17": {
        "level": "exploration",
        "assumptions": EXPLORATION_ASSUMPTIONS + ["the scripted server model decides which nick the server currently uses for the client; Config().Me is read before Me() because Me() repairs it from the tracker"],
        "legs": [
            {"test": "TestC17_DefaultNewNick", "quick": {"checks": 100000, "timeout": "10m"}, "thorough": {"checks": 1000000, "shards": 2, "timeout": "30m"}},
            {"test": "TestC17", "quick": {"checks": 4000, "timeout": "15m"},
             "thorough": {"checks": 15000, "shards": 4, "timeout": "60m"}},
        ],
    },
    "C19": {
        "level": "exploration",
        "assumptions": EXPLORATION_ASSUMPTIONS + ["the negotiation model (capModel in c19_test.go) is written from the property statement; REQ is compared as a set across lines",
                                                  "the enumerated part is exhaustive over the stated small universe (evidence: exhaustive_enum, enum_sessions)"],
        "legs": [
            {"test": "TestC19_Regress", "quick": {"timeout": "5m"}, "thorough": {"timeout": "5m"}},
            {"test": "TestC19_Enum", "quick": {"shards": 4, "timeout": "15m"}, "thorough": {"shards": 4, "timeout": "15m"}},
            {"test": "TestC19", "quick": {"checks": 1000, "timeout": "15m"},
             "thorough": {"checks": 5000, "shards": 4, "timeout": "60m"}},
            {"test": "TestC19_Sessions", "quick": {"checks": 1500, "timeout": "15m"},
             "thorough": {"checks": 20000, "shards": 4, "timeout": "60m"}},
        ],
    },
    "C14": {
        "level": "exploration",
        "assumptions": EXPLORATION_ASSUMPTIONS + ["linearizability is decided by porcupine v1.3.0 against the C12 relational model; data races by the Go race detector on the same generated histories (a race report with a goirc/state frame is a violation)",
                                                  "a returned value is private if scribbling over everything reachable from it leaves the whole observable tracker state equal to the model, later operations leave it equal to its deep copy, and it shares no pointer with related reads"],
        "legs": [
            {"test": "TestC14_Big", "quick": {"checks": 400, "timeout": "15m"}, "thorough": {"checks": 5000, "shards": 2, "timeout": "60m"}},
            {"test": "TestC14_Snapshots", "quick": {"checks": 2000, "timeout": "15m"}, "thorough": {"checks": 20000, "shards": 8, "timeout": "60m"}},
            {"test": "TestC14_Concurrent", "quick": {"checks": 2500, "timeout": "15m"}, "thorough": {"checks": 5000, "shards": 4, "timeout": "60m"}},
            {"test": "TestC14_Concurrent", "race": True, "quick": {"checks": 600, "timeout": "15m"}, "thorough": {"checks": 2000, "shards": 2, "timeout": "60m"}},
        ],
    },
    "C10": {
        "level": "exploration",
        "assumptions": EXPLORATION_ASSUMPTIONS + ["virtual-clock leg: compiled into goirc's client package through go test -overlay (nothing is written to /repo); it reads rateLimit/badness/lastsent, which goirc's own TestRateLimit pins; if it stops compiling the leg is reported as skipped",
                                                  "wire leg: write timestamps are taken inside the scripted socket's Write on the client's send goroutine; lower bounds on delay are load-proof (a sleep can only be longer), the 'not delayed' direction allows 1.5 s of scheduling slack (the smallest possible hold-back is 2 s)"],
        "legs": [
            {"test": "TestVerifC10", "inpkg": "c10_ratelimit_test.go", "quick": {"checks": 20000, "timeout": "15m"}, "thorough": {"checks": 200000, "shards": 8, "timeout": "60m"}},
            {"test": "TestC10_Wire", "quick": {"checks": 1, "timeout": "20m", "shrinktime": "1s", "env": {"VERIF_C10_BATCH": 12, "VERIF_C10_MAXLINES": 6}},
             "thorough": {"checks": 2, "shards": 3, "timeout": "60m", "shrinktime": "1s", "env": {"VERIF_C10_BATCH": 48, "VERIF_C10_MAXLINES": 12}}},
        ],
    },
}

package props

import (
	"encoding/json"
	"fmt"
	"reflect"
	"runtime"
	"strings"
	"sync"
	"testing"
	"time"

	"verifharness/evid"

	"github.com/fluffle/goirc/client"
	"pgregory.net/rapid"
)

// ---------------------------------------------------------------------------
// C15: each handler invocation gets its own copy of the line
// ---------------------------------------------------------------------------

type c15H struct {
	BG       bool `json:"bg"`
	Scribble bool `json:"scribble"`
	Yields   int  `json:"yields"` // before scribbling / before the second look
	Panic    bool `json:"panic"`  // the handler panics when it is done (only with Recover)
}

type c15Scenario struct {
	Events   []*c01Msg `json:"events"`
	Handlers []c15H    `json:"handlers"` // registered for every event's command
	// Tracking: state tracking is on, the client has joined #c, and RawEvents (lines the state
	// handlers act on) follow the generated events; their expected form is ParseLine(raw)
	Tracking  bool `json:"tracking"`
	RawEvents []Q  `json:"raw_events"`
	// Recover: the application installs, on the existing client, a Config().Recover callback that edits
	// the line it is handed (say, redacting it before reporting); some handlers panic, and PanicLines are
	// short lines on which built-in handlers panic
	Recover    bool `json:"recover"`
	PanicLines []Q  `json:"panic_lines"`
	// Late: "" or "bg"/"fg": the first foreground handler registers, from inside each of its invocations,
	// one more handler of that kind for the same command (it removes itself after its first run). With
	// a background one the event in flight may still reach it: it, too, gets a line of its own.
	Late string `json:"late,omitempty"`
}

var c15PanicLines = []string{"PING", ":irc.server 433", ":irc.server CAP", ":irc.server 410 a", ":irc.server 908 a", ":me!ident@host NICK"}

var c15StateLines = []string{
	":irc.server 353 me = #c :me @x +y ",
	":irc.server 353 me = #c :z ",
	":x!u@h MODE #c +ov me y",
	":x!u@h TOPIC #c :a new topic ",
	":y!u@h PART #c :bye ",
	":w!u@h JOIN :#c",
	":x!u@h KICK #c y :out ",
	":irc.server 332 me #c :topic text ",
	":irc.server 352 me #c u h srv x H :0 Real Name ",
	":x!u@h NICK :x2",
	":irc.server 324 me #c +ntk key ",
}

func genC15(t *rapid.T) *c15Scenario {
	sc := &c15Scenario{}
	n := rapid.IntRange(1, 4).Draw(t, "nevents")
	for i := 0; i < n; i++ {
		m := genC01(t)
		if rapid.IntRange(0, 2).Draw(t, "force_builtin") == 0 && !m.IsCTCP {
			m.Verb = Q(rapid.SampledFrom([]string{"PING", "NICK", "433", "001", "CAP"}).Draw(t, "builtin_verb"))
		}
		if rapid.IntRange(0, 5).Draw(t, "many_tags") == 0 {
			// nine or more tags (size classes of maps and pools differ from the usual one to three)
			m.HasTags = true
			for k := rapid.IntRange(9, 14).Draw(t, "ntags"); k > 0; k-- {
				m.Tags = append(m.Tags, c01Tag{Key: Q(fmt.Sprintf("k%d", k)), Kind: 2, Value: Q(fmt.Sprintf("v%d", k))})
			}
		}
		if rapid.IntRange(0, 7).Draw(t, "empty_tag_section") == 0 {
			// "@ :src VERB ...": a tag section with no tags in it parses to an empty, non-nil tag map
			m.HasTags, m.Tags = true, nil
		}
		sc.Events = append(sc.Events, m)
	}
	if rapid.IntRange(0, 2).Draw(t, "tracking") == 0 {
		sc.Tracking = true
		for k := rapid.IntRange(1, 4).Draw(t, "nraw"); k > 0; k-- {
			sc.RawEvents = append(sc.RawEvents, Q(rapid.SampledFrom(c15StateLines).Draw(t, "state_line")))
		}
	}
	sc.Recover = rapid.IntRange(0, 2).Draw(t, "recover") == 0
	if sc.Recover {
		for k := rapid.IntRange(0, 3).Draw(t, "npaniclines"); k > 0; k-- {
			sc.PanicLines = append(sc.PanicLines, Q(rapid.SampledFrom(c15PanicLines).Draw(t, "panic_line")))
		}
	}
	nfg := rapid.IntRange(1, 4).Draw(t, "nfg")
	nbg := rapid.IntRange(0, 3).Draw(t, "nbg")
	if rapid.IntRange(0, 11).Draw(t, "crowd") == 0 {
		// a crowd of handlers on one event (whatever pools or worker caps a dispatcher has, each still
		// gets a line of its own)
		nfg = rapid.SampledFrom([]int{64, 65, 66, 129, 200}).Draw(t, "crowd_fg")
		nbg = rapid.SampledFrom([]int{0, 3, 65}).Draw(t, "crowd_bg")
	}
	sc.Late = rapid.SampledFrom([]string{"", "", "bg", "bg", "fg"}).Draw(t, "late")
	if sc.Late != "" && rapid.Bool().Draw(t, "lone") {
		nfg, nbg = 1, 0 // the event has a single handler when it is dispatched
	}
	for i := 0; i < nfg+nbg; i++ {
		h := c15H{BG: i >= nfg, Scribble: rapid.Bool().Draw(t, "scribble"), Yields: rapid.SampledFrom([]int{0, 0, 1, 5, 50}).Draw(t, "yields")}
		if sc.Recover {
			h.Panic = rapid.IntRange(0, 2).Draw(t, "panics") == 0
		}
		sc.Handlers = append(sc.Handlers, h)
	}
	return sc
}

type c15Rec struct {
	ev, h   int
	first   *client.Line // deep copy taken on entry
	argsPtr uintptr
	tagsPtr uintptr
	nargs   int
	hasTags bool
	linePtr uintptr
	second  *client.Line // deep copy taken after the yields (non-scribblers only)
	// keep the original storage reachable so that its addresses cannot be reused by later allocations
	orig     *client.Line
	origArgs []string
	origTags map[string]string
}

func deepCopyLine(l *client.Line) *client.Line {
	c := *l
	c.Args = append([]string(nil), l.Args...)
	if l.Tags != nil {
		c.Tags = map[string]string{}
		for k, v := range l.Tags {
			c.Tags[k] = v
		}
	}
	return &c
}

func scribble(l *client.Line) {
	for i := range l.Args {
		l.Args[i] = "SCRIBBLED"
	}
	if cap(l.Args) > len(l.Args) {
		ext := l.Args[:cap(l.Args)]
		for i := len(l.Args); i < len(ext); i++ {
			ext[i] = "SCRIBBLED-CAP"
		}
	}
	l.Args = append(l.Args, "EXTRA")
	for k := range l.Tags {
		l.Tags[k] = "SCRIBBLED"
	}
	if l.Tags != nil {
		l.Tags["scribbled-new"] = "1"
		for k := range l.Tags {
			if k != "scribbled-new" {
				delete(l.Tags, k)
				break
			}
		}
	}
	l.Cmd, l.Nick, l.Raw, l.Src, l.Host, l.Ident = "SCRIBBLED", "SCRIBBLED", "SCRIBBLED", "S", "S", "S"
}

// expectOfRaw describes what ParseLine makes of a raw line.
func expectOfRaw(raw string) c01Expect {
	l := client.ParseLine(raw)
	e := c01Expect{Raw: raw}
	if l != nil {
		e.Tags, e.Nick, e.Ident, e.Host, e.Src, e.Cmd, e.Args = l.Tags, l.Nick, l.Ident, l.Host, l.Src, l.Cmd, append([]string(nil), l.Args...)
	}
	return e
}

func runC15(sc *c15Scenario) *Violation {
	tc := newTestClient(cliOpts{Flood: true, Tracking: sc.Tracking})
	defer tc.shutdown()
	var expects []c01Expect
	for _, m := range sc.Events {
		expects = append(expects, m.expect())
	}
	for _, r := range sc.RawEvents {
		expects = append(expects, expectOfRaw(string(r)))
	}
	for _, r := range sc.PanicLines {
		expects = append(expects, expectOfRaw(string(r)))
	}
	if sc.Recover {
		tc.C.Config().Recover = func(c *client.Conn, l *client.Line) {
			if e := recover(); e != nil && l != nil {
				scribble(l) // whatever line this is, it belongs to the invocation that panicked
			}
		}
	}
	var mu sync.Mutex
	var recs []*c15Rec
	cur := 0 // index of the event in flight (events are sent one at a time)
	nlate := 0
	registerLate := func(c *client.Conn, cmd string) {
		var rem client.Remover
		var once sync.Once
		ready := make(chan struct{})
		mu.Lock()
		nlate++
		id := -nlate
		mu.Unlock()
		f := client.HandlerFunc(func(c *client.Conn, l *client.Line) {
			<-ready
			once.Do(func() { rem.Remove() })
			r := &c15Rec{h: id, first: deepCopyLine(l), nargs: len(l.Args), hasTags: l.Tags != nil, linePtr: reflect.ValueOf(l).Pointer(), orig: l, origArgs: l.Args, origTags: l.Tags}
			if cap(l.Args) > 0 {
				r.argsPtr = reflect.ValueOf(l.Args[:1]).Pointer()
			}
			if l.Tags != nil {
				r.tagsPtr = reflect.ValueOf(l.Tags).Pointer()
			}
			mu.Lock()
			r.ev = cur
			recs = append(recs, r)
			mu.Unlock()
			for i := 0; i < 3; i++ {
				runtime.Gosched()
			}
			sec := deepCopyLine(l)
			mu.Lock()
			r.second = sec
			mu.Unlock()
		})
		if sc.Late == "bg" {
			rem = c.HandleBG(cmd, f)
		} else {
			rem = c.Handle(cmd, f)
		}
		close(ready)
	}
	reg := map[string]bool{}
	for _, ex := range expects {
		cmd := ex.Cmd
		if reg[strings.ToLower(cmd)] {
			continue
		}
		reg[strings.ToLower(cmd)] = true
		for hi, h := range sc.Handlers {
			hi, h := hi, h
			f := func(c *client.Conn, l *client.Line) {
				r := &c15Rec{h: hi, first: deepCopyLine(l), nargs: len(l.Args), hasTags: l.Tags != nil, linePtr: reflect.ValueOf(l).Pointer(), orig: l, origArgs: l.Args, origTags: l.Tags}
				if cap(l.Args) > 0 {
					r.argsPtr = reflect.ValueOf(l.Args[:1]).Pointer()
				}
				if l.Tags != nil {
					r.tagsPtr = reflect.ValueOf(l.Tags).Pointer()
				}
				mu.Lock()
				r.ev = cur
				recs = append(recs, r)
				mu.Unlock()
				if hi == 0 && sc.Late != "" {
					registerLate(c, cmd)
				}
				if h.Scribble {
					for i := 0; i < h.Yields; i++ {
						runtime.Gosched()
					}
					scribble(l)
					if h.Panic {
						panic("c15: handler gives up")
					}
					return
				}
				for i := 0; i < h.Yields+3; i++ {
					runtime.Gosched()
				}
				time.Sleep(20 * time.Microsecond)
				sec := deepCopyLine(l)
				mu.Lock()
				r.second = sec
				mu.Unlock()
				if h.Panic {
					panic("c15: handler gives up")
				}
			}
			if h.BG {
				tc.C.HandleBG(cmd, client.HandlerFunc(f))
			} else {
				tc.C.HandleFunc(cmd, f)
			}
		}
	}
	if err := tc.connect(); err != nil {
		return violationf("C15", "connect: %v", err)
	}
	if sc.Tracking {
		tc.conn().SendLine(":irc.server 001 me :Welcome me!ident@host")
		tc.conn().SendLine(":me!ident@host JOIN #c")
		tc.conn().SendLine(":irc.server 353 me = #c :me @x +y")
		if !tc.syncIn(stallTimeout()) {
			return violationf("C15", "tracking warm-up not processed")
		}
		if !waitCond(stallTimeout(), func() bool { return dispatchFrames() == 0 }) {
			return violationf("C15", "handlers of the tracking warm-up did not finish")
		}
		mu.Lock()
		recs = nil // handlers registered for JOIN / 353 also saw the warm-up
		mu.Unlock()
	}
	for ei, e := range expects {
		mu.Lock()
		cur = ei
		mu.Unlock()
		tc.conn().SendLine(e.Raw)
		if !tc.syncIn(stallTimeout()) {
			return violationf("C15", "marker after event %d never delivered", ei)
		}
		if !waitCond(stallTimeout(), func() bool { return dispatchFrames() == 0 }) {
			return violationf("C15", "handlers of event %d did not finish", ei)
		}
		mu.Lock()
		var mine []*c15Rec
		for _, r := range recs {
			if r.ev == ei {
				mine = append(mine, r)
			}
		}
		mu.Unlock()
		regular := 0
		for _, r := range mine {
			if r.h >= 0 {
				regular++
			}
		}
		if regular != len(sc.Handlers) {
			return violationf("C15", "event %d (%q): %d handler invocations, want %d", ei, e.Raw, regular, len(sc.Handlers))
		}
		for _, r := range mine {
			if v := checkLineAgainst("C15", r.first, e, fmt.Sprintf("event %d handler %d (on entry)", ei, r.h)); v != nil {
				v.Msg += " - another handler's edits are visible, or the line is not the parsed event"
				return v
			}
			if r.second != nil {
				if v := checkLineAgainst("C15", r.second, e, fmt.Sprintf("event %d handler %d (second look, after other handlers scribbled)", ei, r.h)); v != nil {
					return v
				}
			}
		}
	}
	// pointer identity: no two invocations (same or different events) share storage
	mu.Lock()
	defer mu.Unlock()
	// a handler may keep its line (queue it for a worker, say): what it kept stays what it was given
	for _, r := range recs {
		if r.h >= 0 && (sc.Handlers[r.h].Scribble || sc.Handlers[r.h].Panic) || r.ev >= len(expects) {
			continue // (a panicking handler's line is scribbled over by this scenario's own Recover callback)
		}
		if v := checkLineAgainst("C15", r.orig, expects[r.ev], fmt.Sprintf("event %d handler %d: the *Line it was given, looked at again after all later events", r.ev, r.h)); v != nil {
			v.Msg += " - a line a handler kept was changed after the handler had returned"
			return v
		}
	}
	for i := 0; i < len(recs); i++ {
		for j := i + 1; j < len(recs); j++ {
			a, b := recs[i], recs[j]
			if a.linePtr == b.linePtr {
				return violationf("C15", "invocations (event %d handler %d) and (event %d handler %d) received the same *Line", a.ev, a.h, b.ev, b.h)
			}
			if a.argsPtr != 0 && a.argsPtr == b.argsPtr {
				return violationf("C15", "invocations (event %d handler %d) and (event %d handler %d) share the Args backing array", a.ev, a.h, b.ev, b.h)
			}
			if a.tagsPtr != 0 && a.tagsPtr == b.tagsPtr {
				return violationf("C15", "invocations (event %d handler %d) and (event %d handler %d) share the Tags map", a.ev, a.h, b.ev, b.h)
			}
		}
	}
	return nil
}

func TestC15(t *testing.T) {
	col := evid.New("C15", "1..4 generated lines (C01 generator: with/without tags, 0..15 arguments, verbs with and without built-in handlers) delivered to 1..4 foreground + 0..3 background handlers that record a deep copy on entry, scribble over Args/Tags/fields at drawn moments, and look again; optionally the first handler registers one more handler (bg/fg) for the same command from inside each invocation, possibly as the event's only handler; oracle: every recorded line equals the expected parse, no two invocations share *Line, Args array or Tags map; non-trivial = >=2 handlers (or a late-registered one) and the line has an argument or tag; distinct by scenario")
	defer finish(t, col)
	rapid.Check(t, func(t *rapid.T) {
		sc := genC15(t)
		v := runC15(sc)
		nt := false
		var cls []string
		for _, m := range sc.Events {
			e := m.expect()
			if (len(sc.Handlers) >= 2 || sc.Late != "") && (len(e.Args) > 0 || len(e.Tags) > 0) {
				nt = true
			}
			if m.HasTags {
				cls = append(cls, "tags")
			}
			if builtinVerbs[e.Cmd] {
				cls = append(cls, "builtin_verb")
			}
		}
		for _, h := range sc.Handlers {
			if h.BG {
				cls = append(cls, "has_bg")
			}
			if h.Scribble {
				cls = append(cls, "has_scribbler")
			}
			if h.Panic {
				cls = append(cls, "has_panicking_handler")
			}
		}
		if len(sc.PanicLines) > 0 {
			cls = append(cls, "builtin_handler_panics")
		}
		if sc.Late != "" {
			cls = append(cls, "late_registered_"+sc.Late)
			if len(sc.Handlers) == 1 {
				cls = append(cls, "lone_handler_registers_another")
			}
		}
		b, _ := json.Marshal(sc)
		col.Case(string(b), nt, uniqStrings(cls)...)
		if len(b) < 1500 {
			wires := []Q{}
			for _, m := range sc.Events {
				wires = append(wires, Q(m.print()))
			}
			col.Sample(map[string]interface{}{"wires": wires, "handlers": sc.Handlers})
		}
		if v != nil {
			failRapid(t, "TestC15", v, sc)
		}
	})
}

func TestC15_Replay(t *testing.T) {
	var sc c15Scenario
	loadReplay(t, &sc)
	n := envInt("VERIF_REPLAY_RUNS", 100)
	for i := 0; i < n; i++ {
		if v := runC15(&sc); v != nil {
			t.Fatalf("REPRODUCED (run %d of %d): %s", i+1, n, v.Msg)
		}
	}
}

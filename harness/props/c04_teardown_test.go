package props

import (
	"context"
	"encoding/json"
	"errors"
	"fmt"
	"strings"
	"sync"
	"testing"
	"time"

	"verifharness/evid"

	"github.com/fluffle/goirc/client"
	"pgregory.net/rapid"
)

// ---------------------------------------------------------------------------
// C04, teardown leg: events that are dispatched while their connection is going
// down. Whether a queued line is still dispatched then is open (C03), but an
// event that IS dispatched invokes every registered handler, foreground and
// background, exactly once - there is no such thing as half an event.
// ---------------------------------------------------------------------------

type c04Teardown struct {
	Lines     int    `json:"lines"`       // numbered lines sent in one burst
	FG        int    `json:"fg"`          // foreground handlers on the verb
	BG        int    `json:"bg"`          // background handlers on the verb
	SlowUS    int    `json:"slow_us"`     // the first foreground handler takes this long
	Emits     int    `json:"emits"`       // lines each foreground invocation sends
	NoRead    bool   `json:"server_not_reading"`
	Cause     string `json:"cause"`       // close, eof, readerr, cancel
	AfterSeen int    `json:"after_seen"`  // the cause fires once this many lines were handled
	Verb      string `json:"verb"`        // PRIVMSG or PING (the built-in PING handler sends a line itself)
}

func genC04Teardown(t *rapid.T) *c04Teardown {
	sc := &c04Teardown{
		Lines:  rapid.IntRange(20, 200).Draw(t, "lines"),
		FG:     rapid.IntRange(1, 3).Draw(t, "fg"),
		BG:     rapid.IntRange(1, 3).Draw(t, "bg"),
		SlowUS: rapid.SampledFrom([]int{0, 20, 100, 400}).Draw(t, "slow_us"),
		Emits:  rapid.SampledFrom([]int{0, 0, 1, 3}).Draw(t, "emits"),
		NoRead: rapid.Bool().Draw(t, "server_not_reading"),
		Cause:  rapid.SampledFrom([]string{"close", "eof", "readerr", "cancel"}).Draw(t, "cause"),
		Verb:   rapid.SampledFrom([]string{"PRIVMSG", "PRIVMSG", "PING"}).Draw(t, "verb"),
	}
	sc.AfterSeen = rapid.IntRange(0, sc.Lines/2).Draw(t, "after_seen")
	if per := sc.FG*sc.Emits + 1; sc.NoRead && sc.AfterSeen > 30/per {
		sc.AfterSeen = 30 / per // the output queue holds 32 lines: later handlers are blocked in their sends
	}
	return sc
}

func runC04Teardown(sc *c04Teardown) *Violation {
	tc := newTestClient(cliOpts{Flood: true})
	defer tc.shutdown()
	var mu sync.Mutex
	counts := map[string]map[int]int{} // handler -> line number -> invocations
	seen := 0
	record := func(h string, l *client.Line) {
		var n int
		fmt.Sscanf(l.Text(), "%d", &n)
		mu.Lock()
		if counts[h] == nil {
			counts[h] = map[int]int{}
		}
		counts[h][n]++
		if h == "fg0" {
			seen++
		}
		mu.Unlock()
	}
	var names []string
	for i := 0; i < sc.FG; i++ {
		name, first := fmt.Sprintf("fg%d", i), i == 0
		names = append(names, name)
		tc.C.HandleFunc(sc.Verb, func(c *client.Conn, l *client.Line) {
			record(name, l)
			if first && sc.SlowUS > 0 {
				time.Sleep(time.Duration(sc.SlowUS) * time.Microsecond)
			}
			for k := 0; k < sc.Emits; k++ {
				c.Raw("EMIT " + l.Text())
			}
		})
	}
	for i := 0; i < sc.BG; i++ {
		name := fmt.Sprintf("bg%d", i)
		names = append(names, name)
		tc.C.HandleBG(sc.Verb, client.HandlerFunc(func(c *client.Conn, l *client.Line) { record(name, l) }))
	}
	disc := make(chan struct{}, 4)
	tc.C.HandleFunc(client.DISCONNECTED, func(*client.Conn, *client.Line) { disc <- struct{}{} })
	ctx, cancel := context.WithCancel(context.Background())
	defer cancel()
	if err := tc.C.ConnectContext(ctx); err != nil {
		return violationf("C04", "connect: %v", err)
	}
	if !tc.syncIn(stallTimeout()) {
		return violationf("C04", "teardown leg: the fresh connection does not process lines")
	}
	conn := tc.conn()
	if sc.NoRead {
		conn.Gate(true)
	}
	var b strings.Builder
	for i := 1; i <= sc.Lines; i++ {
		if sc.Verb == "PING" {
			fmt.Fprintf(&b, "PING :%d\r\n", i)
		} else {
			fmt.Fprintf(&b, ":s!u@h PRIVMSG tgt :%d\r\n", i)
		}
	}
	conn.Send(b.String())
	waitCond(2*time.Second, func() bool { mu.Lock(); defer mu.Unlock(); return seen >= sc.AfterSeen })
	switch sc.Cause {
	case "close":
		go tc.C.Close()
	case "eof":
		// the peer goes away: what it had sent can still be read, writes to it fail
		conn.EOF()
		conn.FailWrites(errors.New("injected: broken pipe"))
	case "readerr":
		conn.FailRead(errors.New("injected: connection reset"), false)
		conn.FailWrites(errors.New("injected: connection reset"))
	case "cancel":
		cancel()
	}
	select {
	case <-disc:
	case <-time.After(stallTimeout()):
		_, dump := goircGoroutines()
		return &Violation{Property: "C04", Msg: "teardown leg: DISCONNECTED never delivered after " + sc.Cause, Detail: dump}
	}
	// every dispatch that was started runs to its end
	waitCond(stallTimeout(), func() bool { return dispatchFrames() == 0 })
	time.Sleep(300 * time.Microsecond)
	waitCond(stallTimeout(), func() bool { return dispatchFrames() == 0 })
	mu.Lock()
	defer mu.Unlock()
	for n := 1; n <= sc.Lines; n++ {
		ran, not := []string{}, []string{}
		for _, h := range names {
			switch c := counts[h][n]; {
			case c == 1:
				ran = append(ran, h)
			case c == 0:
				not = append(not, h)
			default:
				return violationf("C04", "teardown leg: handler %s ran %d times for line %d", h, c, n)
			}
		}
		if len(ran) > 0 && len(not) > 0 {
			return violationf("C04", "teardown leg (%s after %d handled lines of %d): line %d was dispatched - handlers %v ran - but handlers %v, registered all along, never ran for it", sc.Cause, sc.AfterSeen, sc.Lines, n, ran, not)
		}
	}
	return nil
}

func TestC04_Teardown(t *testing.T) {
	col := evid.New("C04", "teardown leg: 20..200 numbered lines in one burst to 1..3 foreground and 1..3 background handlers (slow first handler, handlers that send, server reading or not), the connection ended by Close / EOF / read error / context cancellation after 0..n/2 handled lines; oracle: every line is handled by all registered handlers of both sets exactly once or by none; non-trivial = the connection ended with lines still unhandled; distinct by scenario")
	defer finish(t, col)
	rapid.Check(t, func(t *rapid.T) {
		sc := genC04Teardown(t)
		v := runC04Teardown(sc)
		b, _ := json.Marshal(sc)
		col.Case(string(b), sc.AfterSeen < sc.Lines, "cause="+sc.Cause, "verb="+sc.Verb, fmt.Sprintf("server_not_reading=%v", sc.NoRead))
		col.Sample(sc)
		if v != nil {
			failRapid(t, "TestC04_Teardown", v, sc)
		}
	})
}

func TestC04_Teardown_Replay(t *testing.T) {
	var sc c04Teardown
	loadReplay(t, &sc)
	if v := runC04Teardown(&sc); v != nil {
		t.Fatalf("REPRODUCED %s", v.Msg)
	}
}

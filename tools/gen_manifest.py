#!/usr/bin/env python3
"""Writes /verif/MANIFEST.json from checks_table.py + manifest_text.py and validates it."""
import json, os, sys
VERIF = os.path.dirname(os.path.dirname(os.path.abspath(__file__)))
sys.path.insert(0, VERIF)
from checks_table import CHECKS
from manifest_text import TEXT, NOT_APPLICABLE, NOTES

props = [json.loads(l)["id"] for l in open(os.path.join(VERIF, "properties.jsonl"))]
checks = []
for pid in props:
    if pid not in CHECKS:
        continue
    t = TEXT[pid]
    c = {
        "property_id": pid,
        "quick_cmd": "./check %s --tier quick" % pid,
        "thorough_cmd": "./check %s --tier thorough" % pid,
        "evidence_file": "/verif/evidence/%s.json" % pid,
        "replay_cmd_template": "./check %s --replay {path}" % pid,
        "engine": "goirc-pbt",
        "level_claimed": {"category": CHECKS[pid]["level"], "text": t["level_text"], "design_ref": "DESIGN.md section 4, " + pid},
        "level_note": t["level_note"],
        "technique": t["technique"],
    }
    checks.append(c)
na = [{"property_id": p, "reason": NOT_APPLICABLE.get(p, "check not built yet (work in progress); no claim is made")} for p in props if p not in CHECKS]
m = {
    "version": 1,
    "setup_cmd": "./setup.sh",
    "hooks": {
        "guard": "verif",
        "enable": "no source hooks exist: the checks drive goirc through its public API (Config.Proxy dialer hook, handlers, logging.SetLogger); the one in-package leg (C10 virtual clock) is injected with go test -overlay and leaves /repo untouched",
        "baseline_off_cmd": "cd /repo && GOFLAGS=-mod=mod GOPROXY=off GOSUMDB=off GOTOOLCHAIN=local go test -json -vet=off -count=1 -timeout 25m ./...",
        "source_commits": [],
        "add_only": True,
    },
    "engines": [{"name": "goirc-pbt", "path": "/verif/harness", "serves_properties": [c["property_id"] for c in checks],
                 "kind_free_text": "Go test binary (pgregory.net/rapid generators + native go fuzzing + porcupine) built from /repo's working tree, driven by ./check"}],
    "checks": checks,
    "notes": NOTES,
    "not_applicable": na,
}
if not na:
    m["not_applicable"] = []
json.dump(m, open(os.path.join(VERIF, "MANIFEST.json"), "w"), indent=1)
try:
    import jsonschema
    jsonschema.validate(m, json.load(open("/root/.vp/MANIFEST.schema.json")))
    print("MANIFEST.json valid: %d checks, %d not_applicable" % (len(checks), len(na)))
except ImportError:
    print("jsonschema not importable here; run with python3-vt")

package ircsim

import (
	"context"
	"errors"
	"fmt"
	"net"
	"net/url"
	"sync"
	"sync/atomic"

	"golang.org/x/net/proxy"
)

// A Session is one harness-owned "server": every Dial made through its proxy
// URL yields a fresh scripted Conn and records the address that was dialled.
type Session struct {
	ID string

	mu      sync.Mutex
	conns   []*Conn
	addrs   []string
	dialErr error       // next dials fail with this
	prepare func(*Conn) // applied to each new Conn before it is returned
	dialCh  chan *Conn
}

var (
	regOnce  sync.Once
	sessions sync.Map // id -> *Session
	nextID   atomic.Int64
)

type ctxDialer struct{ s *Session }

func (d ctxDialer) Dial(network, address string) (net.Conn, error) {
	return d.s.dial(context.Background(), address)
}
func (d ctxDialer) DialContext(ctx context.Context, network, address string) (net.Conn, error) {
	return d.s.dial(ctx, address)
}

type plainDialer struct{ s *Session }

func (d plainDialer) Dial(network, address string) (net.Conn, error) {
	return d.s.dial(context.Background(), address)
}

func register() {
	mk := func(withCtx bool) func(*url.URL, proxy.Dialer) (proxy.Dialer, error) {
		return func(u *url.URL, _ proxy.Dialer) (proxy.Dialer, error) {
			v, ok := sessions.Load(u.Host)
			if !ok {
				return nil, fmt.Errorf("ircsim: unknown session %q", u.Host)
			}
			if withCtx {
				return ctxDialer{v.(*Session)}, nil
			}
			return plainDialer{v.(*Session)}, nil
		}
	}
	proxy.RegisterDialerType("verif", mk(true))
	proxy.RegisterDialerType("verifnc", mk(false))
}

// NewSession creates and registers a session.
func NewSession() *Session {
	regOnce.Do(register)
	s := &Session{ID: fmt.Sprintf("s%d", nextID.Add(1)), dialCh: make(chan *Conn, 64)}
	sessions.Store(s.ID, s)
	return s
}

// Release unregisters the session.
func (s *Session) Release() { sessions.Delete(s.ID) }

// ProxyURL is the value for Config.Proxy; withCtx selects a dialer that
// implements DialContext.
func (s *Session) ProxyURL(withCtx bool) string {
	if withCtx {
		return "verif://" + s.ID
	}
	return "verifnc://" + s.ID
}

func (s *Session) dial(ctx context.Context, address string) (net.Conn, error) {
	s.mu.Lock()
	defer s.mu.Unlock()
	s.addrs = append(s.addrs, address)
	if err := ctx.Err(); err != nil {
		return nil, err
	}
	if s.dialErr != nil {
		return nil, s.dialErr
	}
	c := newConn()
	if s.prepare != nil {
		s.prepare(c)
	}
	s.conns = append(s.conns, c)
	select {
	case s.dialCh <- c:
	default:
	}
	return c, nil
}

// FailDials makes later dials fail with err (nil re-enables them).
func (s *Session) FailDials(err error) {
	s.mu.Lock()
	s.dialErr = err
	s.mu.Unlock()
}

// ErrDial is a convenient dial error.
var ErrDial = errors.New("ircsim: injected dial error")

// Prepare installs a function applied to every new connection before the
// client sees it (e.g. to gate writes or schedule a fault).
func (s *Session) Prepare(f func(*Conn)) {
	s.mu.Lock()
	s.prepare = f
	s.mu.Unlock()
}

// Conns returns the connections dialled so far, oldest first.
func (s *Session) Conns() []*Conn {
	s.mu.Lock()
	defer s.mu.Unlock()
	return append([]*Conn(nil), s.conns...)
}

// Last returns the most recent connection or nil.
func (s *Session) Last() *Conn {
	s.mu.Lock()
	defer s.mu.Unlock()
	if len(s.conns) == 0 {
		return nil
	}
	return s.conns[len(s.conns)-1]
}

// Addrs returns every address the client asked to dial.
func (s *Session) Addrs() []string {
	s.mu.Lock()
	defer s.mu.Unlock()
	return append([]string(nil), s.addrs...)
}

package props

import (
	"context"
	"encoding/json"
	"errors"
	"fmt"
	"reflect"
	"runtime"
	"strings"
	"sync"
	"sync/atomic"
	"testing"
	"time"

	"verifharness/evid"
	"verifharness/ircsim"

	"github.com/fluffle/goirc/client"
	"pgregory.net/rapid"
)

// ---------------------------------------------------------------------------
// C07: disconnect always completes, leaks nothing, and the client can reconnect
// ---------------------------------------------------------------------------

type c07Scenario struct {
	Tracking    bool   `json:"tracking"`
	TrackedJoin bool   `json:"tracked_join"` // with tracking: join a channel with other users during the session
	RateLimit   bool   `json:"rate_limit"`   // flood control ON (each case costs seconds)
	PingFreqMS  int    `json:"ping_freq_ms"`
	// IdleMS: before anything ends the connection the server says nothing for this long (the client's own
	// PINGs go unanswered): silence is not "something that ends it", however small Timeout and PingFreq are
	IdleMS      int    `json:"idle_ms,omitempty"`
	TimeoutMS   int    `json:"timeout_ms"` // Config().Timeout lowered on the live client (0: default); the scripted server never answers the client's PINGs
	Welcome     string `json:"welcome"` // none, same, new
	Cycles      int    `json:"cycles"`

	InBacklog      int    `json:"in_backlog"`  // lines queued for the client
	InSegments     int    `json:"in_segments"` // how many reads they arrive in
	HandlerSlowUS  int    `json:"handler_slow_us"`
	HandlerEmits   int    `json:"handler_emits"`   // lines sent per handler invocation
	HandlerAsks    bool   `json:"handler_asks"`    // handler calls Connected() and Me()
	ConnectedEmits int    `json:"connected_emits"` // lines a CONNECTED handler sends (needs a welcome line)
	UserSenders    int    `json:"user_senders"`
	UserLines      int    `json:"user_lines"`
	ServerReads    string `json:"server_reads"` // fast, slow, none
	FireAfter      int    `json:"fire_after"`   // disconnect after this many lines were handled (0 = at once)

	Cause         string `json:"cause"`          // close, close3, eof, readerr, writeerr, cancel
	ReconnectFrom string `json:"reconnect_from"` // handler, goroutine
}

func genC07(t *rapid.T) *c07Scenario {
	sc := &c07Scenario{
		Tracking:       rapid.Bool().Draw(t, "tracking"),
		TrackedJoin:    rapid.IntRange(0, 2).Draw(t, "tracked_join") > 0,
		RateLimit:      rapid.IntRange(0, envInt("VERIF_C07_RL_ONE_IN", 50)-1).Draw(t, "rate_limit") == envInt("VERIF_C07_RL_ONE_IN", 50)/2+3, // interior value: rapid favours the ends of a range
		PingFreqMS:     rapid.SampledFrom([]int{0, 0, 3, 180000}).Draw(t, "pingfreq"),
		TimeoutMS:      rapid.SampledFrom([]int{0, 0, 5}).Draw(t, "timeout_ms"),
		IdleMS:         rapid.SampledFrom([]int{0, 0, 0, 0, 30}).Draw(t, "idle_ms"),
		Welcome:        rapid.SampledFrom([]string{"none", "same", "same", "new"}).Draw(t, "welcome"),
		Cycles:         rapid.SampledFrom([]int{1, 1, 2, 2, 3, 5}).Draw(t, "cycles"),
		InBacklog:      rapid.SampledFrom([]int{0, 5, 30, 70, 120, 400}).Draw(t, "in_backlog"),
		HandlerSlowUS:  rapid.SampledFrom([]int{0, 0, 50, 300}).Draw(t, "handler_slow"),
		HandlerEmits:   rapid.SampledFrom([]int{0, 0, 1, 3, 10}).Draw(t, "handler_emits"),
		HandlerAsks:    rapid.Bool().Draw(t, "handler_asks"),
		ConnectedEmits: rapid.SampledFrom([]int{0, 0, 5, 60}).Draw(t, "connected_emits"),
		UserSenders:    rapid.SampledFrom([]int{0, 0, 1, 4}).Draw(t, "user_senders"),
		UserLines:      rapid.SampledFrom([]int{10, 80, 300}).Draw(t, "user_lines"),
		ServerReads:    rapid.SampledFrom([]string{"fast", "fast", "slow", "none"}).Draw(t, "server_reads"),
		Cause:          rapid.SampledFrom([]string{"close", "close3", "eof", "readerr", "writeerr", "cancel"}).Draw(t, "cause"),
		ReconnectFrom:  rapid.SampledFrom([]string{"handler", "goroutine", "watchdog", "both"}).Draw(t, "reconnect_from"),
	}
	if sc.InBacklog > 0 {
		sc.InBacklog += rapid.IntRange(0, 9).Draw(t, "in_backlog_off")
		sc.InSegments = rapid.SampledFrom([]int{1, 1, 3, 17}).Draw(t, "in_segments")
		sc.FireAfter = rapid.SampledFrom([]int{0, 0, 1, 10}).Draw(t, "fire_after")
		if sc.FireAfter > sc.InBacklog {
			sc.FireAfter = sc.InBacklog
		}
	}
	if !sc.RateLimit && rapid.IntRange(0, 9).Draw(t, "wedged_family") == 3 {
		// the family in which everything is stuck at once: the server has stopped reading, handlers emit
		// more than the output queue holds, so the event loop is blocked in a send when the disconnect
		// (each cause in turn) arrives
		sc.ServerReads = "none"
		sc.HandlerEmits = rapid.SampledFrom([]int{3, 10}).Draw(t, "wedged_emits")
		if sc.InBacklog < 30 {
			sc.InBacklog, sc.InSegments = 40+rapid.IntRange(0, 9).Draw(t, "wedged_backlog"), rapid.SampledFrom([]int{1, 3}).Draw(t, "wedged_segments")
		}
		sc.FireAfter = 1
		sc.UserSenders = 0 // the handlers alone fill the queue; blocked user goroutines only cost clean-up time
		if sc.Cycles > 2 {
			sc.Cycles = 2
		}
	}
	if sc.RateLimit {
		if sc.Cycles > envInt("VERIF_C07_RL_CYCLES", 1) {
			sc.Cycles = envInt("VERIF_C07_RL_CYCLES", 1)
		}
		sc.PingFreqMS = rapid.SampledFrom([]int{0, 3}).Draw(t, "pingfreq_rl")
		// a CONNECTED handler that sends would sit behind a queue of rate-limited keep-alive PINGs for
		// minutes; the session set-up is not what this scenario is about
		sc.ConnectedEmits = 0
	}
	return sc
}

type c07Delivery struct {
	cycle, n int
}

func runC07(sc *c07Scenario) *Violation {
	// goroutines in goirc code that exist before this scenario starts (normally none)
	baseline, _ := goircGoroutines()
	tc := newTestClient(cliOpts{Flood: !sc.RateLimit, Tracking: sc.Tracking, CtxDialer: true, PingFreq: time.Duration(sc.PingFreqMS) * time.Millisecond})
	defer tc.release()
	bound := stallTimeout()
	fail := func(format string, a ...interface{}) *Violation {
		_, dump, _ := connGoroutines(tc.C)
		return &Violation{Property: "C07", Msg: fmt.Sprintf(format, a...), Detail: dump}
	}
	// whatever happens, do not leave this client running behind us
	defer func() {
		for _, c := range tc.S.Conns() {
			c.Gate(false)
			c.EOFNow()
		}
		go tc.C.Close()
	}()
	var mu sync.Mutex
	var deliveries []c07Delivery
	var handled atomic.Int64
	var stopSenders atomic.Bool
	var discCount atomic.Int32
	var curCycle atomic.Int32
	discIdx := -1 // len(deliveries) when DISCONNECTED was entered
	type reconn struct{ err error }
	reconnCh := make(chan reconn, 4)
	bothCh := make(chan error, 8)
	discCh := make(chan struct{}, 8)
	var cancelMu sync.Mutex
	var cancelCur context.CancelFunc
	connect := func() error {
		ctx, cancel := context.WithCancel(context.Background())
		err := tc.C.ConnectContext(ctx)
		if err != nil {
			cancel()
			return err
		}
		cancelMu.Lock()
		cancelCur = cancel // the context of the connection that is up
		cancelMu.Unlock()
		return nil
	}
	tc.C.HandleFunc("PRIVMSG", func(c *client.Conn, l *client.Line) {
		var cy, n int
		fmt.Sscanf(l.Text(), "%d.%d", &cy, &n)
		mu.Lock()
		deliveries = append(deliveries, c07Delivery{cy, n})
		mu.Unlock()
		ask := func() {
			// every query an application's handler may make of its client: none of them may wait for a
			// teardown that is itself waiting for this handler
			_ = c.Connected()
			_ = c.Me()
			_ = c.String()
			_ = c.StateTracker()
			_ = c.Config().Server
			_ = c.SupportsCapability("sasl")
			_ = c.HasCapability("sasl")
		}
		if sc.HandlerAsks {
			ask()
		}
		if sc.HandlerSlowUS > 0 {
			time.Sleep(time.Duration(sc.HandlerSlowUS) * time.Microsecond)
		}
		if sc.HandlerAsks {
			ask()
		}
		for i := 0; i < sc.HandlerEmits; i++ {
			c.Raw(fmt.Sprintf("EMIT %d.%d.%d", cy, n, i))
		}
		handled.Add(1)
	})
	tc.C.HandleFunc(client.CONNECTED, func(c *client.Conn, l *client.Line) {
		for i := 0; i < sc.ConnectedEmits; i++ {
			c.Raw(fmt.Sprintf("EMIT-CONNECTED %d", i))
		}
	})
	tc.C.Handle(client.DISCONNECTED, c07Disc(func(c *client.Conn, l *client.Line) {
		stopSenders.Store(true)
		mu.Lock()
		discIdx = len(deliveries)
		mu.Unlock()
		discCount.Add(1)
		again := int(curCycle.Load())+1 < sc.Cycles
		if again && sc.ReconnectFrom == "handler" {
			reconnCh <- reconn{connect()}
		}
		if again && sc.ReconnectFrom == "both" {
			// belt and braces: the handler reconnects, and so does a supervisor goroutine it wakes; one of
			// the two is told the client is connected already
			go func() { bothCh <- connect() }()
			bothCh <- connect()
		}
		discCh <- struct{}{}
	}))
	if err := connect(); err != nil {
		return fail("first Connect: %v", err)
	}
	if sc.TimeoutMS > 0 {
		// a short time-out setting must not, by itself, end a connection to a server that merely has
		// nothing to say
		tc.C.Config().Timeout = time.Duration(sc.TimeoutMS) * time.Millisecond
	}
	curNick := "me"
	queues := map[int]reflect.Value{}
	for cycle := 0; cycle < sc.Cycles; cycle++ {
		curCycle.Store(int32(cycle))
		conn := tc.conn()
		if q, ok := outQueue(tc.C); ok {
			queues[cycle] = q.Convert(q.Type()) // keep this connection's queue reachable for the clean-up
		}
		// ---- the connection we are on must be fresh and fully working ----
		wantReg := []string{"NICK " + curNick, "USER ident 12 * :Real Name"}
		if !conn.WaitWritten(func(w string) bool { return strings.Contains(w, "USER ") }, bound) {
			return fail("cycle %d: registration not sent on the new connection; wrote %q", cycle, tail(conn.Written(), 200))
		}
		lines, _ := SplitCRLF(conn.Written())
		var reg []string
		for _, l := range lines {
			// (lines of the application's own goroutines - and the harness's write trigger, which is one of
			// them - may land on whichever connection is current when they get to run)
			if !strings.HasPrefix(l, "PING :") && !strings.HasPrefix(l, "USER-LINE") && !strings.HasPrefix(l, "EMIT") && l != "TRIGGER-WRITE" && len(reg) < 2 {
				reg = append(reg, l)
			}
		}
		if strings.Join(reg, "|") != strings.Join(wantReg, "|") {
			return fail("cycle %d: connection starts with %q, want %q", cycle, reg, wantReg)
		}
		if cycle > 0 {
			// wait for the previous generation to be completely gone, then the new connection must still be up
			if !waitCond(bound, func() bool { return connGoroutinesSettled(tc.C, sc.PingFreqMS > 0) }) {
				return fail("cycle %d: goroutines did not settle to one send/recv/runLoop%s after reconnect", cycle, map[bool]string{true: "/ping", false: ""}[sc.PingFreqMS > 0])
			}
			if !tc.C.Connected() {
				return fail("cycle %d: the new connection was torn down by the teardown of the previous one (Connected() is false)", cycle)
			}
			if got := int(discCount.Load()); got != cycle {
				return fail("cycle %d: %d DISCONNECTED events so far, want %d (the fresh connection was closed)", cycle, got, cycle)
			}
			if sc.Tracking {
				st := tc.C.StateTracker()
				if st.GetChannel("#c") != nil || st.GetNick("x") != nil || len(st.Me().Channels) != 0 {
					return fail("cycle %d: tracker not reset on reconnect: %s", cycle, st.String())
				}
				if st.Me().Nick != curNick {
					return fail("cycle %d: tracker's own nick is %q, want %q", cycle, st.Me().Nick, curNick)
				}
			}
		}
		if !sc.RateLimit || cycle == 0 {
			if !tc.syncOut(bound) {
				return fail("cycle %d: new connection does not answer PING", cycle)
			}
		}
		if cycle > 0 && conn.Closed() {
			return fail("cycle %d: the new connection's socket was closed", cycle)
		}
		// ---- session ----
		switch sc.Welcome {
		case "same":
			conn.SendLine(":irc.server 001 " + curNick + " :Welcome " + curNick + "!ident@host")
		case "new":
			curNick = fmt.Sprintf("me%d", cycle+1)
			conn.SendLine(":irc.server 001 " + curNick + " :Welcome " + curNick + "!ident@host")
		}
		if sc.Welcome != "none" {
			// (checked before anything calls Me(), which would repair a nil Config().Me from the tracker)
			if !tc.syncIn(bound) {
				return fail("cycle %d: welcome line not processed", cycle)
			}
			if tc.C.Config().Me == nil {
				return fail("cycle %d: Config().Me is nil after the welcome line", cycle)
			}
		}
		if sc.Tracking && sc.TrackedJoin {
			conn.SendLine(":" + curNick + "!ident@host JOIN #c")
			conn.SendLine(":irc.server 353 " + curNick + " = #c :" + curNick + " @x +y")
		}
		if !tc.syncIn(bound) {
			return fail("cycle %d: session set-up lines not processed", cycle)
		}
		if cfgMe := tc.C.Config().Me; cfgMe == nil {
			return fail("cycle %d: Config().Me is nil after the welcome line", cycle)
		}
		stopSenders.Store(false)
		handled.Store(0)
		switch sc.ServerReads {
		case "none":
			conn.Gate(true)
		case "slow":
			conn.Gate(true)
			go func() {
				for !conn.Closed() && !stopSenders.Load() {
					conn.Allow(1)
					time.Sleep(100 * time.Microsecond)
				}
			}()
		}
		var senders sync.WaitGroup
		for s := 0; s < sc.UserSenders; s++ {
			s := s
			senders.Add(1)
			go func() {
				defer senders.Done()
				// a user goroutine stops sending once the client reports the connection gone (sends issued
				// after that are outside the claim: nobody reads the queue of a dead connection)
				for i := 0; i < sc.UserLines && !stopSenders.Load() && tc.C.Connected(); i++ {
					tc.C.Raw(fmt.Sprintf("USER-LINE %d.%d.%d", cycle, s, i))
				}
			}()
		}
		if sc.InBacklog > 0 {
			var b strings.Builder
			for i := 0; i < sc.InBacklog; i++ {
				fmt.Fprintf(&b, ":a!b@c PRIVMSG me :%d.%d\r\n", cycle, i+1)
			}
			data := b.String()
			var cuts []int
			for k := 1; k < sc.InSegments; k++ {
				cuts = append(cuts, k*len(data)/sc.InSegments)
			}
			conn.SendSegmented(data, cuts)
			if sc.FireAfter > 0 {
				waitCond(2*time.Second, func() bool { return handled.Load() >= int64(sc.FireAfter) })
			}
		}
		// ---- end the connection ----
		if cycle+1 < sc.Cycles && sc.ReconnectFrom == "watchdog" {
			// a supervisor that reconnects the moment the client reports the connection gone - possibly
			// while the teardown is still waiting for a slow handler
			go func() {
				for tc.C.Connected() {
					time.Sleep(20 * time.Microsecond)
				}
				reconnCh <- reconn{connect()}
			}()
		}
		if sc.IdleMS > 0 {
			before := discCount.Load()
			time.Sleep(time.Duration(sc.IdleMS) * time.Millisecond)
			if !tc.C.Connected() || discCount.Load() != before {
				return fail("cycle %d: the connection ended during %d ms in which the server merely said nothing (PingFreq %d ms, Timeout %d ms): nothing had ended it", cycle, sc.IdleMS, sc.PingFreqMS, sc.TimeoutMS)
			}
		}
		closeRet := make(chan error, 4)
		cause := sc.Cause
		if cause == "close3" && cycle+1 < sc.Cycles {
			// several user Close() calls racing with a reconnect may legitimately close the *new*
			// connection (a Close that takes effect after the reconnect is "something that ends it"):
			// use the concurrent form only when no reconnect follows
			cause = "close"
		}
		switch cause {
		case "close":
			go func() { closeRet <- tc.C.Close() }()
		case "close3":
			for k := 0; k < 3; k++ {
				go func() { closeRet <- tc.C.Close() }()
			}
		case "eof":
			// a peer that has gone away cannot keep our writes blocked: they fail (EPIPE / reset)
			conn.EOFNow()
			conn.FailWrites(errors.New("injected: broken pipe"))
		case "readerr":
			conn.FailRead(ircsim.ReadError(sc.InBacklog), true) // (plain / timed out / reset / unexpected EOF, by scenario)
			conn.FailWrites(errors.New("injected: connection reset"))
		case "writeerr":
			conn.FailWrites(errors.New("injected write error"))
			conn.Gate(false)
			go tc.C.Raw("TRIGGER-WRITE")
		case "cancel":
			cancelMu.Lock()
			c := cancelCur
			cancelMu.Unlock()
			c()
		}
		// (1) completion
		select {
		case <-discCh:
		case <-time.After(bound):
			return fail("cycle %d: cause %s: DISCONNECTED not delivered within %v (in backlog %d, handler emits %d, server reads %s, %d user senders)", cycle, sc.Cause, bound, sc.InBacklog, sc.HandlerEmits, sc.ServerReads, sc.UserSenders)
		}
		ncl := map[string]int{"close": 1, "close3": 3}[cause]
		for k := 0; k < ncl; k++ {
			select {
			case <-closeRet:
			case <-time.After(bound):
				return fail("cycle %d: a Close() call did not return within %v", cycle, bound)
			}
		}
		// every handler invocation the connection started (other than DISCONNECTED's own) must be over
		if !waitCond(bound, func() bool { return handlerGoroutines(tc.C, "") == 0 }) {
			n := handlerGoroutines(tc.C, "")
			return fail("cycle %d: %d handler invocation(s) of the closed connection are still running or blocked although DISCONNECTED was delivered and Close returned", cycle, n)
		}
		// User goroutines that were blocked in a send when the connection ended are not promised
		// anything by the property (nobody reads a dead connection's queue); release them so that they
		// do not pile up in this process.
		if q, ok := queues[cycle], queues[cycle].IsValid(); ok {
			sdone := make(chan struct{})
			go func() { senders.Wait(); close(sdone) }()
			drainQueue(q, 2*time.Second, func() bool {
				select {
				case <-sdone:
					return true
				default:
					return false
				}
			})
		}
		last := cycle+1 >= sc.Cycles
		if !last {
			if sc.ReconnectFrom == "goroutine" {
				// another goroutine woken by the DISCONNECTED handler
				go func() { reconnCh <- reconn{connect()} }()
			}
			if sc.ReconnectFrom == "both" {
				ok := 0
				for i := 0; i < 2; i++ {
					select {
					case err := <-bothCh:
						if err == nil {
							ok++
						}
					case <-time.After(bound):
						return fail("cycle %d: a reconnect (handler and supervisor both trying) did not return", cycle)
					}
				}
				if ok != 1 {
					return fail("cycle %d: handler and supervisor both called Connect: %d succeeded, want exactly one", cycle, ok)
				}
				reconnCh <- reconn{nil}
			}
			select {
			case r := <-reconnCh:
				if r.err != nil {
					return fail("cycle %d: reconnect (from %s) failed: %v", cycle, sc.ReconnectFrom, r.err)
				}
			case <-time.After(bound):
				return fail("cycle %d: reconnect (from %s) did not return", cycle, sc.ReconnectFrom)
			}
		} else {
			// (2) no leak
			if !waitCond(bound, func() bool { n, _, _ := connGoroutines(tc.C); return n == 0 }) {
				n, _, kinds := connGoroutines(tc.C)
				return fail("cycle %d: %d of the connection's goroutines remain after the disconnect: %v", cycle, n, kinds)
			}
			if tc.C.Connected() {
				return fail("cycle %d: Connected() true after DISCONNECTED", cycle)
			}
			// closures started by the connection carry no receiver pointer in their frames: count every
			// goroutine that is inside goirc code against the level this scenario started from
			if !waitCond(bound, func() bool { n, _ := goircGoroutines(); return n <= baseline }) {
				n, dump := goircGoroutines()
				return &Violation{Property: "C07", Msg: fmt.Sprintf("cycle %d: %d goroutines started by goirc remain after the disconnect (%d existed before the scenario)", cycle, n, baseline), Detail: dump}
			}
		}
		// nothing of this connection may be delivered once DISCONNECTED was entered
		mu.Lock()
		idx, total := discIdx, len(deliveries)
		var stale *c07Delivery
		for i := idx; i >= 0 && i < total; i++ {
			if deliveries[i].cycle <= cycle {
				d := deliveries[i]
				stale = &d
				break
			}
		}
		mu.Unlock()
		if stale != nil {
			return fail("cycle %d: line %d.%d was delivered after DISCONNECTED had been dispatched (stale queue contents)", cycle, stale.cycle, stale.n)
		}
	}
	time.Sleep(300 * time.Microsecond)
	if got := int(discCount.Load()); got != sc.Cycles {
		return fail("%d DISCONNECTED events for %d connections", got, sc.Cycles)
	}
	return nil
}

// c07Disc is the DISCONNECTED handler as a named type, so that its invocation can be told apart in
// a goroutine dump.
type c07Disc func(*client.Conn, *client.Line)

func (f c07Disc) Handle(c *client.Conn, l *client.Line) { f(c, l) }

// handlerGoroutines counts goroutines that are inside a handler invocation (hNode.Handle) for this
// *Conn and that run one of our own handler closures other than the DISCONNECTED one.
func handlerGoroutines(c *client.Conn, closurePrefix string) int {
	ptr := fmt.Sprintf("%p", c)
	n := 0
	for _, g := range strings.Split(goroutineDump(), "\n\n") {
		if !strings.Contains(g, "goirc/client.(*hNode).Handle(") || !strings.Contains(g, ptr) {
			continue
		}
		if strings.Contains(g, "props.c07Disc.Handle(") { // the DISCONNECTED handler (it may be reconnecting)
			continue
		}
		n++
	}
	return n
}

// connGoroutinesSettled: exactly one send, recv, runLoop (and ping) goroutine
// and nobody inside Close.
func connGoroutinesSettled(c *client.Conn, ping bool) bool {
	_, _, k := connGoroutines(c)
	want := 0
	if ping {
		want = 1
	}
	return k["send"] == 1 && k["recv"] == 1 && k["runLoop"] == 1 && k["ping"] == want && k["close"] == 0 && k["Close"] == 0
}

func (sc *c07Scenario) classes() (cls []string, nontrivial bool) {
	cls = append(cls, "cause="+sc.Cause, "server_reads="+sc.ServerReads, fmt.Sprintf("cycles=%d", sc.Cycles), fmt.Sprintf("tracking=%v", sc.Tracking), "welcome="+sc.Welcome)
	if sc.Cycles > 1 {
		cls = append(cls, "reconnect_from="+sc.ReconnectFrom)
	}
	if sc.RateLimit {
		cls = append(cls, "rate_limited")
	}
	if sc.InBacklog > 64 {
		cls = append(cls, "in_backlog>64")
	}
	out := sc.InBacklog*sc.HandlerEmits + sc.UserSenders*sc.UserLines
	if out > 64 {
		cls = append(cls, "out_backlog>64")
	}
	blocked := sc.HandlerEmits > 0 && sc.ServerReads == "none" && sc.InBacklog*sc.HandlerEmits > 40
	if blocked {
		cls = append(cls, "handler_blocked_in_send")
	}
	if sc.HandlerAsks {
		cls = append(cls, "handler_asks_connected")
	}
	nontrivial = sc.InBacklog > 64 || out > 64 || blocked || (sc.Cycles > 1 && sc.ReconnectFrom == "handler") || sc.Cycles >= 2
	return cls, nontrivial
}

func TestC07(t *testing.T) {
	col := evid.New("C07", "inbound backlog 0..409 lines in 1..17 segments x handlers that are slow / emit 0..10 lines each / ask Connected() x 0..4 user goroutines sending up to 300 lines x server reading fast / slowly / not at all x flood control off or on x cause (Close, 3 concurrent Closes, EOF, read error, write error, context cancellation) fired at once or after k handled lines x reconnect from the DISCONNECTED handler or from another goroutine x 1..5 cycles x tracking x welcome (none / same nick / new nick); non-trivial = backlog > 64 either way, a handler blocked in a send, or >= 2 cycles; distinct by scenario")
	defer finish(t, col)
	rapid.Check(t, func(t *rapid.T) {
		sc := genC07(t)
		journal(sc)
		t0 := time.Now()
		v := runC07(sc)
		cls, nt := sc.classes()
		if d := time.Since(t0); d > 2*time.Second {
			cls = append(cls, "took>2s")
			col.Note(fmt.Sprintf("%.1fs: %+v", d.Seconds(), *sc))
		}
		b, _ := json.Marshal(sc)
		col.Case(string(b), nt, cls...)
		col.Sample(sc)
		if v != nil {
			failRapid(t, "TestC07", v, sc)
		}
	})
}

// c07Regress: the histories that exposed the defects repaired in /repo (see known_findings.json).
var c07Regress = []*c07Scenario{
	{Cycles: 1, InBacklog: 100, InSegments: 1, ServerReads: "fast", Cause: "close", Welcome: "none"},                                    // close-single-drain (inbound)
	{Cycles: 1, InBacklog: 30, InSegments: 1, HandlerEmits: 10, ServerReads: "none", Cause: "close", Welcome: "none"},                   // close-single-drain (outbound, handler blocked)
	{Cycles: 2, ReconnectFrom: "handler", ServerReads: "fast", Cause: "eof", Welcome: "none"},                                           // late-close-kills-successor
	{Cycles: 2, ReconnectFrom: "goroutine", ServerReads: "fast", Cause: "close", Welcome: "same", PingFreqMS: 3, TimeoutMS: 5, IdleMS: 40}, // silent-server
	{Cycles: 3, ReconnectFrom: "goroutine", ServerReads: "fast", Cause: "close", Welcome: "none", PingFreqMS: 3},                        // late-close-kills-successor
	{Cycles: 1, InBacklog: 40, InSegments: 1, HandlerEmits: 10, ServerReads: "none", Cause: "cancel", Welcome: "none"},                  // cancel-while-blocked
	{Cycles: 1, InBacklog: 70, InSegments: 3, HandlerAsks: true, HandlerSlowUS: 50, ServerReads: "fast", Cause: "eof", Welcome: "same"}, // connected-in-handler-during-close
	{Cycles: 2, Tracking: true, ReconnectFrom: "goroutine", ServerReads: "fast", Cause: "close", Welcome: "same"},                       // me-nil-after-refused-renick
	{Cycles: 2, Tracking: true, TrackedJoin: true, ReconnectFrom: "handler", ServerReads: "fast", Cause: "readerr", Welcome: "new", InBacklog: 400, InSegments: 17, UserSenders: 4, UserLines: 300},
}

func TestC07_Regress(t *testing.T) {
	col := evid.New("C07", "regression histories")
	defer finish(t, col)
	for i, sc := range c07Regress {
		b, _ := json.Marshal(sc)
		col.Case(string(b), true, "regress")
		col.Sample(sc)
		journal(sc)
		if v := runC07(sc); v != nil {
			writeReplay("TestC07", v, sc)
			t.Fatalf("VIOLATION C07 (regression history %d): %s", i, v.Msg)
		}
	}
}

func TestC07_Replay(t *testing.T) {
	var sc c07Scenario
	loadReplay(t, &sc)
	n := envInt("VERIF_REPLAY_RUNS", 30)
	for i := 0; i < n; i++ {
		if v := runC07(&sc); v != nil {
			t.Fatalf("REPRODUCED (run %d of %d): %s", i+1, n, v.Msg)
		}
	}
}

var _ = runtime.Gosched
var _ = ircsim.ErrDial

// TestC07_RateLimitedReconnect: flood control on and the same client connected twice, so that the
// second connection's first burst is the one the limiter holds back (the generated scenarios keep
// rate-limited cases to one connection because each costs seconds).
func TestC07_RateLimitedReconnect(t *testing.T) {
	col := evid.New("C07", "two fixed-shape scenarios with flood control on and two connections of the same client (cause Close / server EOF), the second connection's output being rate limited")
	defer finish(t, col)
	for i, sc := range []*c07Scenario{
		{RateLimit: true, Cycles: 2, Welcome: "same", InBacklog: 5, InSegments: 1, HandlerEmits: 1, ServerReads: "fast", FireAfter: 5, Cause: "close", ReconnectFrom: "goroutine", UserLines: 10},
		{RateLimit: true, Cycles: 2, Welcome: "same", InBacklog: 6, InSegments: 1, HandlerEmits: 1, ServerReads: "fast", FireAfter: 6, Cause: "eof", ReconnectFrom: "handler", UserLines: 10},
	} {
		b, _ := json.Marshal(sc)
		col.Case(string(b), true, "rate_limited_reconnect")
		col.Sample(sc)
		journal(sc)
		if v := runC07(sc); v != nil {
			writeReplay("TestC07", v, sc)
			t.Fatalf("VIOLATION C07 (rate-limited reconnect %d): %s", i, v.Msg)
		}
	}
}

package props

import (
	"encoding/json"
	"fmt"
	"strings"
	"sync"
	"testing"
	"time"

	"verifharness/evid"

	"github.com/fluffle/goirc/client"
	"pgregory.net/rapid"
)

// ---------------------------------------------------------------------------
// C17: the client always knows its own current nick
// ---------------------------------------------------------------------------

type c17Step struct {
	Kind    string `json:"kind"`              // clientnick, forced, other, traffic
	Nick    string `json:"nick,omitempty"`    // clientnick: requested; forced: new nick; other: new nick
	From    string `json:"from,omitempty"`    // other: the other user's current nick
	Refuse  int    `json:"refuse,omitempty"`  // clientnick: how many times the server refuses before confirming
	NoColon bool   `json:"no_colon,omitempty"`
}

type c17Scenario struct {
	Nick       string    `json:"nick"`
	Tracking   bool      `json:"tracking"`
	Generator  string    `json:"generator"` // default, underscore, rotate, table
	PreRefuse  int       `json:"pre_refuse"`
	Welcome    string    `json:"welcome"` // same, other, recased
	JoinChan   bool      `json:"join_chan"` // tracking: share a channel with other users
	PlainWelcome bool    `json:"plain_welcome"` // the welcome text does not end in nick!user@host
	ForeignMask  bool    `json:"foreign_mask"`  // the welcome text ends in somebody else's mask (a contact address)
	LateGen    bool      `json:"late_generator"` // Config().NewNick is assigned after Client(), before Connect()
	SwapGen    string    `json:"swap_generator"` // "" or the generator the application installs through Config() after the welcome
	Steps      []c17Step `json:"steps"`
}

func c17Gen(name string) func(string) string {
	switch name {
	case "underscore":
		return func(s string) string { return s + "_" }
	case "rotate":
		return func(s string) string {
			if len(s) < 2 {
				return s + "x"
			}
			return s[1:] + s[:1]
		}
	case "fallback":
		// one fixed alternative: once that is refused too, the generator keeps answering with it
		return func(s string) string { return "fallbk" }
	case "identity":
		// an application that insists on its nick (it will ask for the same one until it is free)
		return func(s string) string { return s }
	case "table":
		return func(s string) string {
			if v, ok := map[string]string{"me": "me_alt", "me_alt": "me_alt2", "bot": "bot2", "bot2": "bot3", "newnick": "newnick2"}[s]; ok {
				return v
			}
			return s + "1"
		}
	}
	return client.DefaultNewNick
}

func genC17(t *rapid.T) *c17Scenario {
	sc := &c17Scenario{
		Nick:      rapid.SampledFrom([]string{"me", "bot", "Nick9", "z}", "a"}).Draw(t, "nick"),
		Tracking:  rapid.Bool().Draw(t, "tracking"),
		Generator: rapid.SampledFrom([]string{"default", "default", "underscore", "rotate", "table", "fallback", "identity"}).Draw(t, "generator"),
		PreRefuse: rapid.SampledFrom([]int{0, 0, 1, 2, 4, 0, 0, 1, 2, 4, 10, 12, 62}).Draw(t, "pre_refuse"), // (10 and 62: once round the last character's alphabet)
		Welcome:   rapid.SampledFrom([]string{"same", "same", "other", "recased"}).Draw(t, "welcome"),
		JoinChan:  rapid.Bool().Draw(t, "join_chan"),
		PlainWelcome: rapid.Bool().Draw(t, "plain_welcome"),
		ForeignMask:  rapid.IntRange(0, 3).Draw(t, "foreign_mask") == 0,
		LateGen:      rapid.Bool().Draw(t, "late_generator"),
	}
	gen := c17Gen(sc.Generator)
	// replay the model while generating so that names can be chosen relative to the current nick
	cur := sc.Nick
	for i := 0; i < sc.PreRefuse; i++ {
		cur = gen(cur)
	}
	if sc.Welcome == "other" {
		cur = "srvgiven"
	}
	if sc.Welcome == "recased" {
		cur = c17SwapCase(cur)
	}
	if rapid.IntRange(0, 2).Draw(t, "swap_generator") == 0 {
		sc.SwapGen = rapid.SampledFrom([]string{"default", "underscore", "rotate", "table", "fallback", "identity"}).Draw(t, "swapped_generator")
		gen = c17Gen(sc.SwapGen)
	}
	prev := sc.Nick
	others := []string{"ann", "bob"}
	n := rapid.IntRange(0, 12).Draw(t, "nsteps")
	for i := 0; i < n; i++ {
		switch rapid.SampledFrom([]string{"clientnick", "clientnick", "forced", "other", "other", "traffic", "toggle_tracking", "reconnect"}).Draw(t, "step") {
		case "reconnect":
			// the link drops and the same client registers again; while it is down the application may
			// put another nick into Config().Me for the next attempt. Whatever nick the client then
			// registers with, the server welcomes it under that nick.
			if sc.Tracking && sc.JoinChan {
				continue
			}
			st := c17Step{Kind: "reconnect"}
			if rapid.Bool().Draw(t, "edit_nick") {
				st.Nick = rapid.SampledFrom([]string{"edited", "Edited2", "me"}).Draw(t, "edited_nick")
				if st.Nick == others[0] || st.Nick == others[1] {
					continue
				}
			}
			sc.Steps = append(sc.Steps, st)
			if st.Nick != "" {
				prev, cur = cur, st.Nick
			}
		case "toggle_tracking":
			// switching state tracking on or off on the live client (it is on no channel, or about to
			// forget them) must not make it forget who it is
			if sc.Tracking && sc.JoinChan {
				continue // "should be enabled ... while the client is not joined to any channels"
			}
			sc.Steps = append(sc.Steps, c17Step{Kind: "toggle_tracking"})
		case "clientnick":
			want := rapid.SampledFrom([]string{"newnick", "bot", "me", "x" + cur, cur + "2", "Zed", c17SwapCase(cur)}).Draw(t, "want") // (the last: only the letter case changes)
			refuse := rapid.SampledFrom([]int{0, 0, 1, 2, 3}).Draw(t, "refuse")
			// the chain of generated nicks must not run into the current nick or another user
			chain, ok := want, want != cur
			for k := 0; k <= refuse && ok; k++ {
				for _, o := range others {
					if chain == o {
						ok = false
					}
				}
				if chain == cur {
					ok = false
				}
				chain = gen(chain)
			}
			if !ok {
				continue
			}
			sc.Steps = append(sc.Steps, c17Step{Kind: "clientnick", Nick: want, Refuse: refuse})
			final := want
			for k := 0; k < refuse; k++ {
				final = gen(final)
			}
			prev, cur = cur, final
		case "forced":
			y := rapid.SampledFrom([]string{"Guest123", "forced", cur + "_", strings.ToUpper(cur) + "x", c17SwapCase(cur)}).Draw(t, "forced")
			if y == cur || y == others[0] || y == others[1] {
				continue
			}
			sc.Steps = append(sc.Steps, c17Step{Kind: "forced", Nick: y, NoColon: rapid.Bool().Draw(t, "no_colon")})
			prev, cur = cur, y
		case "other":
			oi := rapid.IntRange(0, 1).Draw(t, "which_other")
			cands := []string{prev, cur + "_", "_" + cur, strings.ToUpper(cur), strings.ToLower(cur), cur[:len(cur)-1] + "x", "zed"}
			to := rapid.SampledFrom(cands).Draw(t, "other_to")
			if to == "" || to == cur || to == others[0] || to == others[1] {
				continue
			}
			sc.Steps = append(sc.Steps, c17Step{Kind: "other", From: others[oi], Nick: to})
			others[oi] = to
		case "traffic":
			sc.Steps = append(sc.Steps, c17Step{Kind: "traffic"})
		}
	}
	return sc
}

// c17SwapCase flips the case of every letter: a server lets a client change just the spelling of its nick.
func c17SwapCase(s string) string {
	b := []byte(s)
	for i, c := range b {
		switch {
		case c >= 'a' && c <= 'z':
			b[i] = c - 32
		case c >= 'A' && c <= 'Z':
			b[i] = c + 32
		}
	}
	return string(b)
}

func runC17(sc *c17Scenario) *Violation {
	gen := c17Gen(sc.Generator)
	tc := newTestClient(cliOpts{Nick: sc.Nick, Flood: true, Tracking: sc.Tracking, Configure: func(cfg *client.Config) {
		if sc.Generator != "default" && !sc.LateGen {
			cfg.NewNick = gen
		}
	}})
	defer tc.shutdown()
	if sc.Generator != "default" && sc.LateGen {
		tc.C.Config().NewNick = gen
	}
	var mu sync.Mutex
	var inConnected []string
	tc.C.HandleFunc(client.CONNECTED, func(c *client.Conn, l *client.Line) {
		mu.Lock()
		defer mu.Unlock()
		if c.Config().Me == nil {
			inConnected = append(inConnected, "<Config().Me nil>")
		}
		if m := c.Me(); m == nil {
			inConnected = append(inConnected, "<Me() nil>")
		} else {
			inConnected = append(inConnected, m.Nick)
		}
	})
	if err := tc.connect(); err != nil {
		return violationf("C17", "connect: %v", err)
	}
	conn := tc.conn()
	pos := 0
	// newNickLines returns the NICK lines the client wrote since the last call (after a full round trip)
	newNickLines := func() ([]string, *Violation) {
		if !tc.syncOut(stallTimeout()) {
			return nil, violationf("C17", "client stopped answering")
		}
		w := conn.Written()
		ls, _ := SplitCRLF(w[pos:])
		pos = len(w)
		var out []string
		for _, l := range ls {
			if strings.HasPrefix(l, "NICK ") {
				out = append(out, l[5:])
			}
		}
		return out, nil
	}
	check := func(where, want string) *Violation {
		cm := tc.C.Config().Me // read before Me(), which repairs Config().Me from the tracker
		if cm == nil {
			return violationf("C17", "%s: Config().Me is nil", where)
		}
		m := tc.C.Me()
		if m == nil {
			return violationf("C17", "%s: Me() is nil", where)
		}
		if m.Nick != want {
			return violationf("C17", "%s: Me().Nick = %q, the server uses %q", where, m.Nick, want)
		}
		if tr := tc.C.StateTracker(); tr != nil {
			if tm := tr.Me(); tm == nil || tm.Nick != want {
				return violationf("C17", "%s: StateTracker().Me().Nick = %v, the server uses %q", where, tm, want)
			}
		}
		return nil
	}
	got, v := newNickLines()
	if v != nil {
		return v
	}
	if len(got) != 1 || got[0] != sc.Nick {
		return violationf("C17", "registration sent NICK %q, want [%q]", got, sc.Nick)
	}
	requested := sc.Nick
	if v := check("after registration", requested); v != nil {
		return v
	}
	for i := 0; i < sc.PreRefuse; i++ {
		conn.SendLine(fmt.Sprintf(":irc.server 433 * %s :Nickname is already in use.", requested))
		got, v := newNickLines()
		if v != nil {
			return v
		}
		want := gen(requested)
		if len(got) != 1 || got[0] != want {
			return violationf("C17", "collision %d on %q before the welcome answered with NICK %q, want exactly [%q]", i+1, requested, got, want)
		}
		requested = want
		if v := check(fmt.Sprintf("after collision %d before the welcome", i+1), requested); v != nil {
			return v
		}
	}
	cur := requested
	if sc.Welcome == "other" {
		cur = "srvgiven"
	}
	if sc.Welcome == "recased" {
		cur = c17SwapCase(requested) // the server knows the account under another spelling
	}
	if sc.ForeignMask {
		conn.SendLine(fmt.Sprintf(":irc.server 001 %s :Welcome to ExampleNet %s - problems? ask help!desk@example.net", cur, cur))
	} else if sc.PlainWelcome {
		conn.SendLine(fmt.Sprintf(":irc.server 001 %s :Welcome to the Internet Relay Network", cur))
	} else {
		conn.SendLine(fmt.Sprintf(":irc.server 001 %s :Welcome to the network %s!ident@client.host", cur, cur))
	}
	if _, v := newNickLines(); v != nil {
		return v
	}
	if v := check("after the welcome", cur); v != nil {
		return v
	}
	mu.Lock()
	ic := append([]string(nil), inConnected...)
	mu.Unlock()
	if len(ic) != 1 || ic[0] != cur {
		return violationf("C17", "inside the CONNECTED handler Me() reported %q, the welcome line said %q", ic, cur)
	}
	if sc.SwapGen != "" {
		// the application changes its mind about alternative nicks on the connected client
		gen = c17Gen(sc.SwapGen)
		tc.C.Config().NewNick = gen
	}
	others := []string{"ann", "bob"}
	if sc.Tracking && sc.JoinChan {
		conn.SendLine(":" + cur + "!ident@client.host JOIN #c")
		conn.SendLine(":irc.server 353 " + cur + " = #c :" + cur + " @ann +bob")
		conn.SendLine(":irc.server 366 " + cur + " #c :End")
		if _, v := newNickLines(); v != nil {
			return v
		}
	}
	for si, st := range sc.Steps {
		where := fmt.Sprintf("step %d (%s %s)", si, st.Kind, st.Nick)
		switch st.Kind {
		case "toggle_tracking":
			if tc.C.StateTracker() != nil {
				tc.C.DisableStateTracking()
			} else {
				tc.C.EnableStateTracking()
			}
		case "reconnect":
			done := make(chan struct{})
			go func() { tc.C.Close(); close(done) }()
			select {
			case <-done:
			case <-time.After(stallTimeout()):
				return violationf("C17", "%s: Close did not return", where)
			}
			waitCond(stallTimeout(), func() bool { n, _, _ := connGoroutines(tc.C); return n == 0 })
			if st.Nick != "" {
				tc.C.Config().Me.Nick = st.Nick // (no Me() call in between)
			}
			if err := tc.connect(); err != nil {
				return violationf("C17", "%s: reconnect: %v", where, err)
			}
			conn, pos = tc.conn(), 0
			reg, v := newNickLines()
			if v != nil {
				return v
			}
			if len(reg) != 1 {
				return violationf("C17", "%s: registration on the new connection sent NICK %q, want exactly one", where, reg)
			}
			cur = reg[0]
			conn.SendLine(fmt.Sprintf(":irc.server 001 %s :Welcome back %s!ident@client.host", cur, cur))
		case "traffic":
			conn.SendLine(":ann!a@h PRIVMSG " + cur + " :hello " + cur)
			conn.SendLine(":irc.server NOTICE " + cur + " :NICK " + cur + "x")
		case "other":
			conn.SendLine(":" + st.From + "!o@h NICK :" + st.Nick)
		case "forced":
			colon := ":"
			if st.NoColon {
				colon = ""
			}
			conn.SendLine(":" + cur + "!ident@client.host NICK " + colon + st.Nick)
			cur = st.Nick
		case "clientnick":
			tc.C.Nick(st.Nick)
			got, v := newNickLines()
			if v != nil {
				return v
			}
			if len(got) != 1 || got[0] != st.Nick {
				return violationf("C17", "%s: Nick(%q) wrote NICK %q", where, st.Nick, got)
			}
			if v := check(where+" before the server answered", cur); v != nil {
				return v
			}
			pending := st.Nick
			for k := 0; k < st.Refuse; k++ {
				conn.SendLine(fmt.Sprintf(":irc.server 433 %s %s :Nickname is already in use.", cur, pending))
				got, v := newNickLines()
				if v != nil {
					return v
				}
				want := gen(pending)
				if len(got) != 1 || got[0] != want {
					return violationf("C17", "%s: refusal of %q answered with NICK %q, want exactly [%q]", where, pending, got, want)
				}
				pending = want
				if v := check(where+" after a refusal", cur); v != nil {
					return v
				}
			}
			conn.SendLine(":" + cur + "!ident@client.host NICK :" + pending)
			cur = pending
		}
		got, v := newNickLines()
		if v != nil {
			return v
		}
		if len(got) != 0 {
			return violationf("C17", "%s: client sent unsolicited NICK %q", where, got)
		}
		if v := check(where, cur); v != nil {
			return v
		}
		_ = others
	}
	return nil
}

func (sc *c17Scenario) classes() (cls []string, nontrivial bool) {
	cls = append(cls, "generator="+sc.Generator, fmt.Sprintf("tracking=%v", sc.Tracking), "welcome="+sc.Welcome, fmt.Sprintf("pre_refuse=%d", sc.PreRefuse))
	if sc.PreRefuse > 0 {
		nontrivial = true
	}
	for _, s := range sc.Steps {
		cls = append(cls, "step="+s.Kind)
		if s.Kind == "clientnick" && s.Refuse > 0 {
			nontrivial = true
			cls = append(cls, "refused_then_confirmed")
		}
	}
	return uniqStrings(cls), nontrivial
}

func TestC17(t *testing.T) {
	col := evid.New("C17", "server scripts: 0..4 collisions (433) before the welcome, 001 with the requested or a server-chosen nick, then client nick changes confirmed or refused 1..3 times first, server-forced changes, other users changing to/from names resembling the client's (previous nick, prefix, suffix, case variants), traffic mentioning nicks; tracking on/off (with a shared channel), default and three custom generators; Config().Me read before Me(); non-trivial = a pre-welcome collision or a refused-then-confirmed change; distinct by script")
	defer finish(t, col)
	rapid.Check(t, func(t *rapid.T) {
		sc := genC17(t)
		v := runC17(sc)
		cls, nt := sc.classes()
		b, _ := json.Marshal(sc)
		col.Case(string(b), nt, cls...)
		if len(sc.Steps) <= 4 {
			col.Sample(sc)
		}
		if v != nil {
			failRapid(t, "TestC17", v, sc)
		}
	})
}

func TestC17_Replay(t *testing.T) {
	var sc c17Scenario
	loadReplay(t, &sc)
	if v := runC17(&sc); v != nil {
		t.Fatalf("REPRODUCED %s", v.Msg)
	}
}

type c17Str struct {
	S Q `json:"s"`
}

func checkDefaultNewNick(s string) *Violation {
	var out string
	var pan interface{}
	func() {
		defer func() { pan = recover() }()
		out = client.DefaultNewNick(s)
	}()
	if pan != nil {
		return violationf("C17", "DefaultNewNick(%q) panicked: %v", s, pan)
	}
	if len(out) != len(s) {
		return violationf("C17", "DefaultNewNick(%q) = %q: length %d, want %d", s, out, len(out), len(s))
	}
	if out == s {
		return violationf("C17", "DefaultNewNick(%q) returned the same nick", s)
	}
	if out[:len(out)-1] != s[:len(s)-1] {
		return violationf("C17", "DefaultNewNick(%q) = %q differs before the last character", s, out)
	}
	return nil
}

func TestC17_DefaultNewNick(t *testing.T) {
	col := evid.New("C17", "DefaultNewNick on every last byte 0..255 behind several stems (exhaustive over the last byte), and on random non-empty byte strings; non-trivial = every case; distinct by string")
	defer finish(t, col)
	for _, stem := range []string{"", "a", "nick", "x9", "}{"} {
		for b := 0; b < 256; b++ {
			s := stem + string([]byte{byte(b)})
			col.Case(s, true, "exhaustive_last_byte")
			if v := checkDefaultNewNick(s); v != nil {
				writeReplay("TestC17_DefaultNewNick", v, c17Str{Q(s)})
				t.Fatalf("VIOLATION C17: %s", v.Msg)
			}
		}
	}
	rapid.Check(t, func(t *rapid.T) {
		b := rapid.SliceOfN(rapid.Byte(), 1, 24).Draw(t, "nick")
		s := string(b)
		col.Case(s, true, "random")
		col.Sample(map[string]interface{}{"nick": Q(s), "next": Q(client.DefaultNewNick(s))})
		if v := checkDefaultNewNick(s); v != nil {
			failRapid(t, "TestC17_DefaultNewNick", v, c17Str{Q(s)})
		}
	})
}

func TestC17_DefaultNewNick_Replay(t *testing.T) {
	var s c17Str
	loadReplay(t, &s)
	if v := checkDefaultNewNick(string(s.S)); v != nil {
		t.Fatalf("REPRODUCED %s", v.Msg)
	}
}

package props

import (
	"encoding/json"
	"errors"
	"fmt"
	"sort"
	"strings"
	"sync"
	"testing"
	"time"

	"verifharness/evid"

	"github.com/fluffle/goirc/client"
	"github.com/fluffle/goirc/logging"
	"pgregory.net/rapid"
)

// ---------------------------------------------------------------------------
// capturing logger (package-global in goirc, so one per process)
// ---------------------------------------------------------------------------

type logRec struct {
	Level  string
	Format string
	Args   []interface{}
	Text   string
}

type capLogger struct {
	mu   sync.Mutex
	recs []logRec
}

func (c *capLogger) add(level, f string, a []interface{}) {
	r := logRec{Level: level, Format: f, Args: a, Text: fmt.Sprintf(f, a...)}
	c.mu.Lock()
	c.recs = append(c.recs, r)
	c.mu.Unlock()
}
func (c *capLogger) Debug(f string, a ...interface{}) { c.add("debug", f, a) }
func (c *capLogger) Info(f string, a ...interface{})  { c.add("info", f, a) }
func (c *capLogger) Warn(f string, a ...interface{})  { c.add("warn", f, a) }
func (c *capLogger) Error(f string, a ...interface{}) { c.add("error", f, a) }
func (c *capLogger) take() []logRec {
	c.mu.Lock()
	defer c.mu.Unlock()
	r := c.recs
	c.recs = nil
	return r
}

// ---------------------------------------------------------------------------
// C16
// ---------------------------------------------------------------------------

type c16H struct {
	BG      bool     `json:"bg"`
	Scripts []string `json:"scripts"` // per invocation (cyclic): ok, block, panic:string|error|int|nil|struct|runtime
}

type c16Scenario struct {
	CloseWhileBlocked bool              `json:"close_while_blocked"` // end the connection while background handlers are still blocked
	PanicDuringClose  bool              `json:"panic_during_close"`  // a handler panics while Close() is waiting for the event loop
	CustomRecover     bool              `json:"custom_recover"`
	// SwapAfterConnect (with CustomRecover): another Recover function is configured up front and the real
	// one is installed through Config() only once the client is connected
	SwapAfterConnect bool `json:"swap_after_connect"`
	Handlers          map[string][]c16H `json:"handlers"` // verb -> handlers
	Events            []string          `json:"events"`   // verb, or "!<builtin probe line>"
}

var c16Verbs = []string{"EVX", "EVY", "PRIVMSG"}
var c16Probes = []string{"PING", "433", "CAP", "410 a", ":me!ident@host NICK", "908 a", "CAP * LS"}
var c16ProbePanics = map[string]bool{"PING": true, "433": true, "CAP": true, "410 a": true, ":me!ident@host NICK": true, "908 a": true, "CAP * LS": false}

func genC16(t *rapid.T) *c16Scenario {
	sc := &c16Scenario{CustomRecover: rapid.Bool().Draw(t, "custom_recover"), Handlers: map[string][]c16H{},
		CloseWhileBlocked: rapid.Bool().Draw(t, "close_while_blocked"), PanicDuringClose: rapid.IntRange(0, 3).Draw(t, "panic_during_close") == 0}
	for _, v := range c16Verbs {
		nfg := rapid.IntRange(1, 4).Draw(t, "nfg")
		nbg := rapid.IntRange(0, 3).Draw(t, "nbg")
		for i := 0; i < nfg+nbg; i++ {
			h := c16H{BG: i >= nfg}
			ns := rapid.IntRange(1, 4).Draw(t, "nscripts")
			for j := 0; j < ns; j++ {
				opts := []string{"ok", "ok", "ok", "panic:string", "panic:error", "panic:int", "panic:nil", "panic:struct", "panic:runtime"}
				if h.BG {
					opts = append(opts, "block", "block")
				}
				h.Scripts = append(h.Scripts, rapid.SampledFrom(opts).Draw(t, "script"))
			}
			sc.Handlers[v] = append(sc.Handlers[v], h)
		}
	}
	sc.SwapAfterConnect = sc.CustomRecover && rapid.Bool().Draw(t, "swap_after_connect")
	switch rapid.IntRange(0, 39).Draw(t, "special") {
	case 7:
		// more than four thousand events, each leaving one background invocation stuck
		sc.Handlers = map[string][]c16H{"EVX": {{Scripts: []string{"ok"}}, {BG: true, Scripts: []string{"block"}}}, "EVY": {{Scripts: []string{"ok"}}}, "PRIVMSG": {{Scripts: []string{"ok"}}}}
		for i, n := 0, rapid.IntRange(4100, 4400).Draw(t, "nevents_huge"); i < n; i++ {
			sc.Events = append(sc.Events, "EVX")
		}
		sc.Events = append(sc.Events, "EVY", "PRIVMSG")
		return sc
	case 8, 9:
		// a crowd of handlers on one event, one of the first panicking
		var hs []c16H
		for i, n := 0, rapid.SampledFrom([]int{129, 130, 200, 300}).Draw(t, "crowd"); i < n; i++ {
			h := c16H{Scripts: []string{"ok"}}
			if i == rapid.IntRange(0, 9).Draw(t, "crowd_panicker") {
				h.Scripts = []string{"panic:string"}
			}
			hs = append(hs, h)
		}
		sc.Handlers["EVX"] = hs
	}
	n := rapid.IntRange(5, 60).Draw(t, "nevents")
	if rapid.IntRange(0, 11).Draw(t, "long_history") == 0 {
		// several hundred events: whatever a stuck background handler holds on to per invocation must not run out
		n = rapid.IntRange(270, 600).Draw(t, "nevents_long")
	}
	for i := 0; i < n; i++ {
		if rapid.IntRange(0, 5).Draw(t, "probe") == 0 {
			sc.Events = append(sc.Events, "!"+rapid.SampledFrom(c16Probes).Draw(t, "probe_line"))
		} else {
			sc.Events = append(sc.Events, rapid.SampledFrom(c16Verbs).Draw(t, "verb"))
		}
	}
	return sc
}

type c16Struct struct{ A int }

func doPanic(kind string) {
	switch kind {
	case "string":
		panic("boom")
	case "error":
		panic(errors.New("boom error"))
	case "int":
		panic(42)
	case "nil":
		panic(nil)
	case "struct":
		panic(c16Struct{7})
	case "runtime":
		var m map[string]int
		m["x"] = 1
	}
}

var c16Log = &capLogger{}

func runC16(sc *c16Scenario) *Violation {
	logging.SetLogger(c16Log)
	defer logging.SetLogger(nil)
	c16Log.take()
	var mu sync.Mutex
	type recov struct{ raw, val string }
	var recovered []recov
	var lateRecover func(*client.Conn, *client.Line)
	tc := newTestClient(cliOpts{Flood: true, Configure: func(cfg *client.Config) {
		if sc.CustomRecover {
			lateRecover = func(c *client.Conn, l *client.Line) {
				if e := recover(); e != nil {
					mu.Lock()
					recovered = append(recovered, recov{l.Raw, fmt.Sprintf("%T", e)})
					mu.Unlock()
				}
			}
			if !sc.PanicDuringClose { // (reusing a drawn bit) half of the custom-recover cases configure it up front ...
				cfg.Recover = lateRecover
			}
		}
	}})
	if sc.CustomRecover && sc.PanicDuringClose {
		tc.C.Config().Recover = lateRecover // ... the others through Config() on the existing client
	}
	if sc.SwapAfterConnect {
		// until the client is connected some other function is configured; panics handed to it are lost
		// to this scenario's count
		tc.C.Config().Recover = func(c *client.Conn, l *client.Line) { recover() }
	}
	release := make(chan struct{})
	released := false
	defer func() {
		if !released {
			close(release)
		}
		tc.shutdown()
	}()
	inv := map[string]int{} // "verb#i" -> invocations
	var order []int         // seqs seen by the order witness
	for verb, hs := range sc.Handlers {
		for i, h := range hs {
			key, h := fmt.Sprintf("%s#%d", verb, i), h
			f := func(c *client.Conn, l *client.Line) {
				// which script applies is fixed by the event (its occurrence number travels in the line),
				// not by arrival order: background dispatches of consecutive events overlap
				var seq, k int
				fmt.Sscanf(l.Text(), "%d %d", &seq, &k)
				mu.Lock()
				inv[key]++
				mu.Unlock()
				s := h.Scripts[k%len(h.Scripts)]
				switch {
				case s == "block":
					<-release
				case strings.HasPrefix(s, "panic:"):
					doPanic(s[6:])
				}
			}
			if h.BG {
				tc.C.HandleBG(verb, client.HandlerFunc(f))
			} else {
				tc.C.HandleFunc(verb, f)
			}
		}
		// order witness: a well-behaved foreground handler
		tc.C.HandleFunc(verb, func(c *client.Conn, l *client.Line) {
			var n int
			fmt.Sscanf(l.Text(), "%d", &n)
			mu.Lock()
			order = append(order, n)
			mu.Unlock()
		})
	}
	// well-behaved user handlers on the built-in verbs too: a panicking internal handler must not
	// keep the event from them
	probeInv := map[string]int{}
	for _, pv := range []string{"PING", "433", "CAP", "410", "NICK", "908"} {
		pv := pv
		tc.C.HandleFunc(pv, func(c *client.Conn, l *client.Line) {
			mu.Lock()
			probeInv["fg:"+pv]++
			mu.Unlock()
		})
		tc.C.HandleBG(pv, client.HandlerFunc(func(c *client.Conn, l *client.Line) {
			mu.Lock()
			probeInv["bg:"+pv]++
			mu.Unlock()
		}))
	}
	discCh := make(chan struct{}, 2)
	tc.C.HandleFunc(client.DISCONNECTED, func(*client.Conn, *client.Line) { discCh <- struct{}{} })
	if err := tc.connect(); err != nil {
		return violationf("C16", "connect: %v", err)
	}
	if sc.SwapAfterConnect {
		tc.C.Config().Recover = lateRecover // "Config returns a pointer to the Config struct": it may be changed on the live client
	}
	// expectations
	wantProbe := map[string]int{}
	wantInv := map[string]int{}
	wantPanics := map[string]int{} // raw -> count
	totalPanics := 0
	var wantOrder []int
	occ := map[string]int{}
	blockedSoFar := false
	var lines []string
	for i, ev := range sc.Events {
		if strings.HasPrefix(ev, "!") {
			raw := ev[1:]
			lines = append(lines, raw)
			if pl, _ := parseNoPanic(raw); pl != nil {
				wantProbe["fg:"+pl.Cmd]++
				wantProbe["bg:"+pl.Cmd]++
			}
			if c16ProbePanics[raw] {
				wantPanics[raw]++
				totalPanics++
			}
			continue
		}
		raw := fmt.Sprintf(":s!u@h %s tgt :%d %d", ev, i+1, occ[ev])
		lines = append(lines, raw)
		wantOrder = append(wantOrder, i+1)
		k := occ[ev]
		occ[ev]++
		for hi, h := range sc.Handlers[ev] {
			key := fmt.Sprintf("%s#%d", ev, hi)
			s := h.Scripts[k%len(h.Scripts)]
			wantInv[key]++
			if strings.HasPrefix(s, "panic:") {
				wantPanics[raw]++
				totalPanics++
			}
			if s == "block" {
				blockedSoFar = true
			}
		}
	}
	for _, l := range lines {
		tc.conn().SendLine(l)
	}
	fail := func(msg string) *Violation {
		_, dump := goircGoroutines()
		return &Violation{Property: "C16", Msg: msg, Detail: dump}
	}
	if !tc.syncIn(stallTimeout()) {
		return fail(fmt.Sprintf("final marker never delivered: event delivery stopped (blocked background handlers present: %v)", blockedSoFar))
	}
	// background handlers that do not block must all have been invoked eventually
	ok := waitCond(stallTimeout(), func() bool {
		mu.Lock()
		defer mu.Unlock()
		for k, w := range wantInv {
			if inv[k] < w {
				return false
			}
		}
		for k, w := range wantProbe {
			if probeInv[k] < w {
				return false
			}
		}
		if sc.CustomRecover && len(recovered) < totalPanics {
			return false
		}
		return true
	})
	if !ok {
		mu.Lock()
		defer mu.Unlock()
		return fail(fmt.Sprintf("handlers not invoked for every matching event: got %v want %v; on built-in verbs got %v want %v; recovered %d of %d panics", inv, wantInv, probeInv, wantProbe, len(recovered), totalPanics))
	}
	if sc.CloseWhileBlocked {
		// DISCONNECTED is a later event too: it must reach foreground handlers although background
		// handlers are still blocked
		go tc.C.Close()
		select {
		case <-discCh:
		case <-time.After(stallTimeout()):
			return fail(fmt.Sprintf("DISCONNECTED not delivered while background handlers are blocked (blocked handlers present: %v)", blockedSoFar))
		}
	}
	close(release)
	released = true
	if sc.PanicDuringClose && !sc.CloseWhileBlocked {
		// a handler that panics while Close() is waiting for the event loop: recovery must still work
		// and the disconnect must still complete
		entered := make(chan struct{})
		tc.C.HandleFunc("PANICLATE", func(c *client.Conn, l *client.Line) {
			close(entered)
			waitCond(5*time.Second, func() bool { return !c.Connected() })
			panic("panic during close")
		})
		tc.conn().SendLine(":s!u@h PANICLATE x :late")
		select {
		case <-entered:
		case <-time.After(stallTimeout()):
			return fail("late event not delivered")
		}
		go tc.C.Close()
		select {
		case <-discCh:
		case <-time.After(stallTimeout()):
			return fail("a handler panicked while Close() was in progress: DISCONNECTED never delivered (recovery blocked?)")
		}
		wantPanics[":s!u@h PANICLATE x :late"]++
		totalPanics++
	}
	if !waitCond(stallTimeout(), func() bool { return dispatchFrames() == 0 }) {
		return fail("handler dispatch did not finish after releasing blocked handlers")
	}
	mu.Lock()
	defer mu.Unlock()
	for k, w := range wantInv {
		if inv[k] != w {
			return violationf("C16", "handler %s ran %d times, want %d (a sibling's panic must not disturb it)", k, inv[k], w)
		}
	}
	for k, w := range wantProbe {
		if probeInv[k] != w {
			return violationf("C16", "user handler %s ran %d times, want %d (a panicking built-in handler must not keep the event from it)", k, probeInv[k], w)
		}
	}
	if fmt.Sprint(order) != fmt.Sprint(wantOrder) {
		return violationf("C16", "well-behaved foreground handler saw events %v, want %v", order, wantOrder)
	}
	if sc.CustomRecover {
		got := map[string]int{}
		for _, r := range recovered {
			got[r.raw]++
		}
		keys := []string{}
		for k := range wantPanics {
			keys = append(keys, k)
		}
		for k := range got {
			if _, ok := wantPanics[k]; !ok {
				keys = append(keys, k)
			}
		}
		sort.Strings(keys)
		for _, k := range keys {
			if got[k] != wantPanics[k] {
				return violationf("C16", "recovery function received %d panics for line %q, want %d", got[k], k, wantPanics[k])
			}
		}
	} else {
		n := 0
		for _, r := range c16Log.take() {
			if r.Level == "error" {
				n++
			}
		}
		if n < totalPanics {
			return violationf("C16", "default recovery logged %d error records for %d panics", n, totalPanics)
		}
	}
	return nil
}

func (sc *c16Scenario) classes() (cls []string, nontrivial bool) {
	for _, ev := range sc.Events {
		if strings.HasPrefix(ev, "!") {
			cls = append(cls, "builtin_probe")
		}
	}
	for _, hs := range sc.Handlers {
		for _, h := range hs {
			for _, s := range h.Scripts {
				if s != "ok" {
					cls = append(cls, s)
					if len(hs) > 1 {
						nontrivial = true
					}
				}
			}
		}
	}
	if sc.CustomRecover {
		cls = append(cls, "custom_recover")
	} else {
		cls = append(cls, "default_logpanic")
	}
	return uniqStrings(cls), nontrivial && len(sc.Events) > 1
}

func TestC16(t *testing.T) {
	col := evid.New("C16", "sequences of 5..60 events over 3 verbs plus built-in verbs with too few parameters (whose internal handlers panic); per verb 1..4 foreground and 0..3 background handlers with per-invocation scripts ok / panic(string,error,int,nil,struct,runtime error) / block forever (background); default LogPanic with a capturing logger or a custom Config.Recover; non-trivial = a panicking or blocking handler with a sibling on the same verb and >=2 events; distinct by scenario")
	defer finish(t, col)
	rapid.Check(t, func(t *rapid.T) {
		sc := genC16(t)
		v := runC16(sc)
		cls, nt := sc.classes()
		b, _ := json.Marshal(sc)
		col.Case(string(b), nt, cls...)
		if len(sc.Events) <= 8 {
			col.Sample(sc)
		}
		if v != nil {
			failRapid(t, "TestC16", v, sc)
		}
	})
}

func TestC16_Replay(t *testing.T) {
	var sc c16Scenario
	loadReplay(t, &sc)
	n := envInt("VERIF_REPLAY_RUNS", 50)
	for i := 0; i < n; i++ {
		if v := runC16(&sc); v != nil {
			t.Fatalf("REPRODUCED (run %d of %d): %s", i+1, n, v.Msg)
		}
	}
}

var _ = time.Second

package props

import (
	"encoding/json"
	"fmt"
	"runtime"
	"sort"
	"strconv"
	"strings"
	"sync"
	"sync/atomic"
	"testing"
	"time"

	"verifharness/evid"
	"verifharness/model"

	"github.com/fluffle/goirc/client"
	"github.com/fluffle/goirc/state"
	"pgregory.net/rapid"
)

// ---------------------------------------------------------------------------
// C05: state tracking is applied before user handlers observe a line
// ---------------------------------------------------------------------------

type c05Scenario struct {
	Net    c13Scenario `json:"net"`
	Burst  bool        `json:"burst"`
	Delays []int       `json:"delays_us"` // cyclic foreground handler delays (burst mode)
	NFG    int         `json:"nfg"`
	NBG    int         `json:"nbg"`
	// burst mode: close the connection and reconnect (which resets the tracker) from another
	// goroutine after this many microseconds, while handlers are still working through the burst
	ReconnectAfterUS int `json:"reconnect_after_us"`
	// the client starts untracked, sees a few lines that mean nothing to a tracker (a stranger's NICK, a
	// message), and only then has state tracking switched on - on the live connection, on no channel yet
	LateTracking bool `json:"late_tracking"`
	// OldTimes: every line carries a server-time tag from years ago (replayed history, a bouncer's backlog)
	OldTimes bool `json:"old_times"`
	// TimeoutMS: Config().Timeout lowered on the live client (0: default)
	TimeoutMS int `json:"timeout_ms"`
}

var c05Verbs = []string{"JOIN", "PART", "KICK", "QUIT", "NICK", "MODE", "TOPIC", "353", "352", "324", "332", "366", "315", "329", "333"}

func c05Universe() (nicks, chans []string) {
	nicks = append(append([]string{}, c13NickPool...), "me", "Me", "me2")
	sort.Strings(nicks)
	return nicks, c13Chans
}

// snapTracker renders everything observable through the public tracker API.
func snapTracker(st state.Tracker, nicks, chans []string) string {
	var b strings.Builder
	b.WriteString("me=" + fmtNick(st.Me()) + "\n")
	for _, n := range nicks {
		if nk := st.GetNick(n); nk != nil {
			b.WriteString("N " + fmtNick(nk) + "\n")
		}
	}
	for _, c := range chans {
		if ch := st.GetChannel(c); ch != nil {
			b.WriteString("C " + fmtChan(ch) + "\n")
		}
	}
	return b.String()
}

// c05Reference runs the session in lock-step on a tracked client without user
// handlers; it returns the concrete line sequence (events and the replies to
// what the client asked) and the tracker state after each line.
func c05Reference(sc *c13Scenario) (lines []string, states []string, v *Violation) {
	tc := newTestClient(cliOpts{Flood: true, Tracking: true, Nick: "me"})
	defer tc.shutdown()
	if err := tc.connect(); err != nil {
		return nil, nil, violationf("C05", "reference connect: %v", err)
	}
	conn := tc.conn()
	n := model.NewNet("me")
	nicks, chans := c05Universe()
	st := tc.C.StateTracker()
	feed := func(l string) *Violation {
		k := len(lines)
		lines = append(lines, l)
		conn.SendLine("@n=" + strconv.Itoa(k) + " " + l)
		if !tc.syncIn(stallTimeout()) {
			return violationf("C05", "reference run stopped at line %d", k)
		}
		states = append(states, snapTracker(st, nicks, chans))
		return nil
	}
	if v := feed(fmt.Sprintf(":%s 001 me :Welcome to the network me!ident@client.host", n.Server)); v != nil {
		return nil, nil, v
	}
	if !tc.syncOut(stallTimeout()) {
		return nil, nil, violationf("C05", "reference: no PONG")
	}
	pos := len(conn.Written())
	for _, e := range sc.Events {
		if e.Kind == "reconnect" || e.Kind == "appwho" {
			continue // C13's subjects; C05 sessions stay on one connection and make no requests of their own
		}
		ls := applyNetEvent(n, e)
		if len(ls) == 0 {
			continue
		}
		for _, l := range ls {
			if v := feed(l); v != nil {
				return nil, nil, v
			}
		}
		if !tc.syncOut(stallTimeout()) {
			return nil, nil, violationf("C05", "reference: no PONG")
		}
		w := conn.Written()
		reqs, _ := SplitCRLF(w[pos:])
		pos = len(w)
		for _, r := range reqs {
			f := strings.Fields(r)
			var rep []string
			switch {
			case len(f) == 2 && f[0] == "MODE":
				rep = n.ReplyMode(f[1])
			case len(f) == 2 && f[0] == "WHO" && !e.NoWho:
				rep = n.ReplyWho(f[1])
			}
			for _, l := range rep {
				if v := feed(l); v != nil {
					return nil, nil, v
				}
			}
		}
		if !tc.syncOut(stallTimeout()) {
			return nil, nil, violationf("C05", "reference: no PONG")
		}
		pos = len(conn.Written())
	}
	return lines, states, nil
}

type c05Obs struct {
	k       int
	bg      bool
	h       int
	snap    string
	exit    string // foreground, burst mode: the tracker as seen just before the handler returned
	hasExit bool
	closing bool // the harness had already begun to close the connection when the handler started
	meVsGet string // non-empty: Me() and GetNick(Me().Nick) disagreed inside the handler
}

func runC05(sc *c05Scenario) (nontrivial bool, v *Violation) {
	lines, ref, v := c05Reference(&sc.Net)
	if v != nil {
		return false, v
	}
	nicks, chans := c05Universe()
	tc := newTestClient(cliOpts{Flood: true, Tracking: !sc.LateTracking, Nick: "me"})
	defer tc.shutdown()
	var mu sync.Mutex
	var obs []c05Obs
	var closing atomic.Bool
	for _, verb := range append([]string{"001"}, c05Verbs...) {
		for h := 0; h < sc.NFG+sc.NBG; h++ {
			h, bg := h, h >= sc.NFG
			f := func(c *client.Conn, l *client.Line) {
				k, err := strconv.Atoi(l.Tags["n"])
				if err != nil {
					return
				}
				o := c05Obs{k: k, bg: bg, h: h, closing: closing.Load()}
				o.snap = snapTracker(c.StateTracker(), nicks, chans)
				if me := c.Me(); me != nil {
					// two views of the same nick: the client's own and the tracker's by name
					if g := c.StateTracker().GetNick(me.Nick); g == nil || fmtNick(g) != fmtNick(me) {
						o.meVsGet = fmt.Sprintf("Me()=%s GetNick(%q)=%s", fmtNick(me), me.Nick, fmtNick(g))
					}
				}
				if !bg && sc.Burst && len(sc.Delays) > 0 {
					if d := sc.Delays[(k+h)%len(sc.Delays)]; d > 0 {
						time.Sleep(time.Duration(d) * time.Microsecond)
					} else {
						runtime.Gosched()
					}
					// still nothing later may be reflected when a foreground handler is about to return
					o.exit, o.hasExit = snapTracker(c.StateTracker(), nicks, chans), true
				}
				mu.Lock()
				obs = append(obs, o)
				mu.Unlock()
			}
			if bg {
				tc.C.HandleBG(verb, client.HandlerFunc(f))
			} else {
				tc.C.HandleFunc(verb, f)
			}
		}
	}
	if err := tc.connect(); err != nil {
		return false, violationf("C05", "connect: %v", err)
	}
	conn := tc.conn()
	if sc.LateTracking {
		conn.SendLine(":zed!u@h NICK zed2")
		conn.SendLine(":zed2!u@h PRIVMSG me :hello")
		conn.SendLine(":irc.server MODE me +i")
		if !tc.syncIn(stallTimeout()) {
			return false, violationf("C05", "prelude never delivered")
		}
		tc.C.EnableStateTracking()
	}
	tagsOf := func(k int) string {
		if sc.OldTimes {
			return "@n=" + strconv.Itoa(k) + ";time=2011-10-19T16:40:51.620Z "
		}
		return "@n=" + strconv.Itoa(k) + " "
	}
	if sc.TimeoutMS > 0 {
		tc.C.Config().Timeout = time.Duration(sc.TimeoutMS) * time.Millisecond
	}
	if sc.Burst {
		var b strings.Builder
		for k, l := range lines {
			b.WriteString(tagsOf(k) + l + "\r\n")
		}
		conn.Send(b.String())
		if sc.ReconnectAfterUS > 0 {
			done := make(chan error, 1)
			go func() {
				time.Sleep(time.Duration(sc.ReconnectAfterUS) * time.Microsecond)
				closing.Store(true)
				tc.C.Close()
				done <- tc.C.Connect()
			}()
			select {
			case err := <-done:
				if err != nil {
					return false, violationf("C05", "reconnect: %v", err)
				}
			case <-time.After(stallTimeout()):
				return false, violationf("C05", "Close/Connect during the burst did not return")
			}
		} else if !tc.syncIn(stallTimeout()) {
			return false, violationf("C05", "burst: marker never delivered")
		}
	} else {
		for k, l := range lines {
			conn.SendLine(tagsOf(k) + l)
			if !tc.syncIn(stallTimeout()) {
				return false, violationf("C05", "lock-step: marker after line %d never delivered", k)
			}
			if !waitCond(stallTimeout(), func() bool { return dispatchFrames() == 0 }) {
				return false, violationf("C05", "lock-step: handlers of line %d did not finish", k)
			}
		}
	}
	waitCond(stallTimeout(), func() bool { return dispatchFrames() == 0 })
	mu.Lock()
	defer mu.Unlock()
	changed := 0
	for k := 1; k < len(ref); k++ {
		if ref[k] != ref[k-1] {
			changed++
		}
	}
	for _, o := range obs {
		if o.k < 0 || o.k >= len(ref) {
			continue
		}
		if o.bg && sc.Burst {
			continue // later lines may legitimately be applied while a background handler runs
		}
		if o.hasExit && o.exit != o.snap {
			return changed > 0, &Violation{Property: "C05", Msg: fmt.Sprintf("the tracker changed while foreground handler %d for line %d %q was running (a later line, or a reconnect, was applied under it)", o.h, o.k, lines[o.k]),
				Detail: map[string]string{"on_entry": o.snap, "before_return": o.exit}}
		}
		if o.closing {
			// once the disconnect has begun, undispatched lines may be discarded, so a line that is still
			// dispatched need not see all its predecessors applied: only stability (above) is checked
			continue
		}
		if o.meVsGet != "" {
			return changed > 0, &Violation{Property: "C05", Msg: fmt.Sprintf("handler %d for line %d %q: the client's Me() does not reflect the line although the tracker's own record of that nick does: %s", o.h, o.k, lines[o.k], o.meVsGet)}
		}
		if o.snap != ref[o.k] {
			kind := "foreground"
			if o.bg {
				kind = "background"
			}
			which := "an unknown state"
			if o.k > 0 && o.snap == ref[o.k-1] {
				which = "the state BEFORE this line (tracking not yet applied)"
			} else {
				for j := o.k + 1; j < len(ref); j++ {
					if o.snap == ref[j] {
						which = fmt.Sprintf("the state after line %d (a LATER line already applied)", j)
						break
					}
				}
			}
			return changed > 0, &Violation{Property: "C05", Msg: fmt.Sprintf("%s handler %d for line %d %q observed %s", kind, o.h, o.k, lines[o.k], which),
				Detail: map[string]string{"observed": o.snap, "expected": ref[o.k]}}
		}
	}
	return changed >= 2, nil
}

func TestC05(t *testing.T) {
	col := evid.New("C05", "C13's conformant sessions, every line tagged with its index; user foreground and background handlers on every state-changing verb snapshot the whole tracker through the public API; differential oracle: reference states from a separate lock-step run without user handlers. Lock-step mode checks foreground and background handlers, burst mode (all lines at once, slow foreground handlers) checks foreground handlers for 'this line and no later line'; non-trivial = >=2 state-changing lines; distinct by session")
	defer finish(t, col)
	rapid.Check(t, func(t *rapid.T) {
		sc := &c05Scenario{Net: *genC13(t), Burst: rapid.Bool().Draw(t, "burst"), NFG: rapid.IntRange(1, 3).Draw(t, "nfg"), NBG: rapid.IntRange(0, 2).Draw(t, "nbg")}
		sc.LateTracking = rapid.IntRange(0, 3).Draw(t, "late_tracking") == 0
		sc.OldTimes = rapid.IntRange(0, 3).Draw(t, "old_times") == 0
		sc.TimeoutMS = rapid.SampledFrom([]int{0, 0, 1}).Draw(t, "timeout_ms")
		if sc.Burst && rapid.IntRange(0, 2).Draw(t, "reconnect") == 1 {
			sc.ReconnectAfterUS = rapid.SampledFrom([]int{1, 50, 300, 1000, 3000}).Draw(t, "reconnect_after_us")
		}
		for k := rapid.IntRange(1, 4).Draw(t, "ndelays"); k > 0; k-- {
			sc.Delays = append(sc.Delays, rapid.SampledFrom([]int{0, 0, 20, 100, 400, 0, 20, 100, 400, 2500}).Draw(t, "delay"))
		}
		nt, v := runC05(sc)
		b, _ := json.Marshal(sc)
		col.Case(string(b), nt, fmt.Sprintf("burst=%v", sc.Burst), fmt.Sprintf("nbg=%d", sc.NBG), fmt.Sprintf("reconnect_during_burst=%v", sc.ReconnectAfterUS > 0), fmt.Sprintf("late_tracking=%v", sc.LateTracking), fmt.Sprintf("old_server_times=%v", sc.OldTimes), fmt.Sprintf("lowered_timeout=%v", sc.TimeoutMS > 0))
		if len(sc.Net.Events) <= 10 {
			col.Sample(sc)
		}
		if v != nil {
			failRapid(t, "TestC05", v, sc)
		}
	})
}

func TestC05_Replay(t *testing.T) {
	var sc c05Scenario
	loadReplay(t, &sc)
	n := envInt("VERIF_REPLAY_RUNS", 50)
	for i := 0; i < n; i++ {
		if _, v := runC05(&sc); v != nil {
			b, _ := json.Marshal(v.Detail)
			t.Fatalf("REPRODUCED (run %d of %d): %s\n%s", i+1, n, v.Msg, b)
		}
	}
}

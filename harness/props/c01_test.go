package props

import (
	"encoding/json"
	"fmt"
	"reflect"
	"strings"
	"sync"
	"testing"
	"time"

	"verifharness/evid"
	"verifharness/ircsim"

	"github.com/fluffle/goirc/client"
	"pgregory.net/rapid"
)

// ---------------------------------------------------------------------------
// C01: structured message value, reference printer, expected parse
// ---------------------------------------------------------------------------

type c01Tag struct {
	Key   Q   `json:"key"`
	Kind  int `json:"kind"` // 0 key only, 1 "key=", 2 "key=value"
	Value Q   `json:"value"`
}

type c01Msg struct {
	HasTags bool     `json:"has_tags"`
	Tags    []c01Tag `json:"tags"`
	SrcKind int      `json:"src_kind"` // 0 none, 1 server, 2 bare nick, 3 nick!user@host, 4 nick@host
	Nick    Q        `json:"nick"`
	User    Q        `json:"user"`
	Host    Q        `json:"host"`
	Verb    Q        `json:"verb"`
	Middles []Q      `json:"middles"`
	Gaps    []int    `json:"gaps"` // spaces before each middle and before the trailing
	HasTrl  bool     `json:"has_trailing"`
	Trl     Q        `json:"trailing"`
	// CTCP class: Middles = [target], trailing = \x01 CVerb SP CText \x01
	IsCTCP bool `json:"is_ctcp"`
	CVerb  Q    `json:"ctcp_verb"`
	CText  Q    `json:"ctcp_text"`
	Conn   bool `json:"conn_leg"`
	// Faulty: (connection leg) the line arrives in two reads, cut at this offset, with a transient read
	// error between them (0: delivered whole)
	FaultCut int `json:"fault_cut,omitempty"`
	variant  bool // set on the derived second message
}

func escapeTagValue(v string) string {
	var b strings.Builder
	for i := 0; i < len(v); i++ {
		switch v[i] {
		case ';':
			b.WriteString(`\:`)
		case ' ':
			b.WriteString(`\s`)
		case '\\':
			b.WriteString(`\\`)
		case '\r':
			b.WriteString(`\r`)
		case '\n':
			b.WriteString(`\n`)
		default:
			b.WriteByte(v[i])
		}
	}
	return b.String()
}

func (m *c01Msg) source() string {
	switch m.SrcKind {
	case 1:
		return string(m.Host)
	case 2:
		return string(m.Nick)
	case 3:
		return string(m.Nick) + "!" + string(m.User) + "@" + string(m.Host)
	case 4:
		return string(m.Nick) + "@" + string(m.Host)
	}
	return ""
}

func (m *c01Msg) trailing() string {
	if m.IsCTCP {
		return "\x01" + string(m.CVerb) + " " + string(m.CText) + "\x01"
	}
	return string(m.Trl)
}

// print is the reference printer: RFC 2812 2.3.1 plus the IRCv3 tag section.
func (m *c01Msg) print() string {
	var b strings.Builder
	if m.HasTags {
		b.WriteByte('@')
		for i, t := range m.Tags {
			if i > 0 {
				b.WriteByte(';')
			}
			b.WriteString(string(t.Key))
			switch t.Kind {
			case 1:
				b.WriteByte('=')
			case 2:
				b.WriteByte('=')
				b.WriteString(escapeTagValue(string(t.Value)))
			}
		}
		b.WriteByte(' ')
	}
	if m.SrcKind != 0 {
		b.WriteByte(':')
		b.WriteString(m.source())
		b.WriteByte(' ')
	}
	b.WriteString(string(m.Verb))
	gap := func(i int) string {
		n := 1
		if i < len(m.Gaps) && m.Gaps[i] >= 1 && m.Gaps[i] <= 3 {
			n = m.Gaps[i]
		}
		return strings.Repeat(" ", n)
	}
	for i, p := range m.Middles {
		b.WriteString(gap(i))
		b.WriteString(string(p))
	}
	if m.HasTrl || m.IsCTCP {
		b.WriteString(gap(len(m.Middles)))
		b.WriteByte(':')
		b.WriteString(m.trailing())
	}
	return b.String()
}

type c01Expect struct {
	Tags                        map[string]string
	Nick, Ident, Host, Src, Cmd string
	Args                        []string
	Raw                         string
	Text, Target                string
	Public                      bool
}

func isChanPrefix(s string) bool {
	return len(s) > 0 && strings.IndexByte("#&+!", s[0]) >= 0
}

// expect computes the expected Line from the structured value alone.
func (m *c01Msg) expect() c01Expect {
	var e c01Expect
	if m.HasTags {
		e.Tags = map[string]string{}
		for _, t := range m.Tags {
			if t.Kind == 2 {
				e.Tags[string(t.Key)] = string(t.Value)
			} else {
				e.Tags[string(t.Key)] = ""
			}
		}
	}
	e.Src = m.source()
	switch m.SrcKind {
	case 3:
		e.Nick, e.Ident, e.Host = string(m.Nick), string(m.User), string(m.Host)
	case 0:
	default:
		e.Host = e.Src
	}
	e.Cmd = strings.ToUpper(string(m.Verb))
	for _, p := range m.Middles {
		e.Args = append(e.Args, string(p))
	}
	if m.IsCTCP {
		target := string(m.Middles[0])
		cv := strings.ToUpper(string(m.CVerb))
		switch {
		case cv == "ACTION" && e.Cmd == "PRIVMSG":
			e.Cmd = "ACTION"
			e.Args = []string{target, string(m.CText)}
		case e.Cmd == "PRIVMSG":
			e.Cmd = "CTCP"
			e.Args = []string{cv, target, string(m.CText)}
		default:
			e.Cmd = "CTCPREPLY"
			e.Args = []string{cv, target, string(m.CText)}
		}
	} else if m.HasTrl {
		e.Args = append(e.Args, string(m.Trl))
	}
	e.Raw = m.print()
	if n := len(e.Args); n > 0 {
		e.Text = e.Args[n-1]
	}
	// Public / Target per the doc comments in line.go.
	first := ""
	if len(e.Args) > 0 {
		first = e.Args[0]
	}
	switch e.Cmd {
	case "PRIVMSG", "NOTICE", "ACTION":
		e.Public = isChanPrefix(first)
		if e.Public {
			e.Target = first
		} else {
			e.Target = e.Nick
		}
	case "CTCP", "CTCPREPLY":
		e.Public = isChanPrefix(e.Args[1])
		if e.Public {
			e.Target = e.Args[1]
		} else {
			e.Target = e.Nick
		}
	default:
		e.Target = first
	}
	return e
}

func (m *c01Msg) nontrivial() bool {
	if m.IsCTCP || m.SrcKind == 3 {
		return true
	}
	for _, t := range m.Tags {
		if t.Kind == 2 && escapeTagValue(string(t.Value)) != string(t.Value) {
			return true
		}
	}
	n := len(m.Middles)
	if m.HasTrl {
		n++
		if m.Trl == "" || strings.Contains(string(m.Trl), " :") {
			return true
		}
	}
	if n >= 2 {
		for i := 0; i < n && i < len(m.Gaps); i++ {
			if m.Gaps[i] > 1 {
				return true
			}
		}
	}
	return false
}

func (m *c01Msg) classes() []string {
	var cl []string
	cl = append(cl, fmt.Sprintf("src_kind=%d", m.SrcKind))
	if m.HasTags {
		cl = append(cl, "tags")
		for _, t := range m.Tags {
			if strings.Contains(string(t.Value), `\`) {
				cl = append(cl, "tag_value_backslash")
				break
			}
		}
	}
	if m.IsCTCP {
		cl = append(cl, "ctcp")
	}
	if m.HasTrl {
		cl = append(cl, "trailing")
		if m.Trl == "" {
			cl = append(cl, "trailing_empty")
		}
	}
	cl = append(cl, fmt.Sprintf("middles=%d", len(m.Middles)))
	if m.Conn {
		cl = append(cl, "conn_leg")
	}
	return cl
}

// ---------------------------------------------------------------------------
// generator
// ---------------------------------------------------------------------------

var handledVerbs = []string{
	"PRIVMSG", "NOTICE", "JOIN", "PART", "KICK", "QUIT", "MODE", "NICK", "TOPIC", "PING", "PONG",
	"CAP", "AUTHENTICATE", "001", "433", "311", "324", "332", "352", "353", "671", "410",
	"903", "904", "908", "ERROR", "INVITE", "002", "366",
}

func genMixedCase(t *rapid.T, s string, label string) string {
	mode := rapid.IntRange(0, 3).Draw(t, label+"_case")
	switch mode {
	case 0:
		return s
	case 1:
		return strings.ToLower(s)
	}
	b := []byte(s)
	for i := range b {
		if rapid.Bool().Draw(t, label+"_flip") {
			if b[i] >= 'A' && b[i] <= 'Z' {
				b[i] += 32
			} else if b[i] >= 'a' && b[i] <= 'z' {
				b[i] -= 32
			}
		}
	}
	return string(b)
}

func genUnits(t *rapid.T, label string, units []string, min, max int) string {
	n := rapid.IntRange(min, max).Draw(t, label+"_n")
	var b strings.Builder
	for i := 0; i < n; i++ {
		b.WriteString(rapid.SampledFrom(units).Draw(t, label))
	}
	return b.String()
}

var tagValueUnits = []string{";", " ", `\`, `\`, "\r", "\n", "=", ":", "s", "n", "r", "a", "b", "Z", "0", "9", ",", "/", "é", "\xff", "\x01", "@", "!", "☃"}
var tagKeyUnits = []string{"a", "b", "k", "Z", "0", "7", "-"}

// safe parameter units: no SPACE NUL CR LF and nothing Go treats as white space
var paramUnits = []string{
	"a", "b", "c", "x", "Y", "Z", "0", "1", "9", ":", ":", "#", "&", "+", "!", "@", ";", "=", `\`, "\x01", "\x02", "\x1f", "\x7f",
	"*", ",", ".", "-", "_", "[", "]", "{", "}", "|", "^", "`", "~", "%", "$", "/", "?", "é", "☃", "\xff", "\x80", "\"", "'",
}
var trailingUnits = append(append([]string{}, paramUnits...), " ", " ", " :", " :", "  ", "\t", "\v", "\f", " ", "\u0085", "　")
var nickUnits = []string{"a", "b", "N", "k", "0", "9", "[", "]", `\`, "`", "_", "^", "{", "|", "}", "-"}
var userUnits = []string{"u", "s", "r", "~", "0", ".", "-", "_", "é", "^"}
var hostUnits = []string{"h", "o", "s", "t", "0", "1", ".", "-", ":", "/", "a", "f"}
var ctcpTextUnits = append(append([]string{}, paramUnits[0:19]...), " ", " ", ":", "\x02", "é", " :")

func genParam(t *rapid.T, label string, noCtl01Start bool) string {
	for {
		s := genUnits(t, label, paramUnits, 1, 8)
		if s[0] == ':' {
			s = "x" + s
		}
		if noCtl01Start && s[0] == '\x01' {
			s = "y" + s
		}
		return s
	}
}

func genC01(t *rapid.T) *c01Msg {
	m := &c01Msg{}
	// tags
	if rapid.IntRange(0, 2).Draw(t, "has_tags") == 0 {
		m.HasTags = true
		n := rapid.IntRange(1, 6).Draw(t, "ntags")
		seen := map[string]bool{}
		for i := 0; i < n; i++ {
			key := genUnits(t, "tag_key", tagKeyUnits, 1, 5)
			if rapid.IntRange(0, 3).Draw(t, "tag_wellknown") == 0 {
				key = rapid.SampledFrom([]string{"t", "time", "msgid", "account", "batch", "label"}).Draw(t, "tag_key_known")
			}
			if rapid.IntRange(0, 3).Draw(t, "tag_vendor") == 0 {
				key = genUnits(t, "tag_vendor_host", []string{"ex", "ample", ".", "com", "org"}, 1, 3) + "/" + key
			}
			if rapid.IntRange(0, 3).Draw(t, "tag_client") == 0 {
				key = "+" + key
			}
			if seen[key] {
				key = fmt.Sprintf("%s%d", key, i)
			}
			seen[key] = true
			tg := c01Tag{Key: Q(key), Kind: rapid.IntRange(0, 2).Draw(t, "tag_kind")}
			if rapid.IntRange(0, 2).Draw(t, "tag_kind_valued") > 0 {
				tg.Kind = 2
			}
			if tg.Kind == 2 {
				tg.Value = Q(genUnits(t, "tag_val", tagValueUnits, 1, 10))
			}
			m.Tags = append(m.Tags, tg)
		}
	}
	// source
	m.SrcKind = rapid.SampledFrom([]int{0, 1, 2, 3, 3, 3, 4}).Draw(t, "src_kind")
	switch m.SrcKind {
	case 1:
		m.Host = Q(genUnits(t, "server", []string{"irc", ".", "-", "a", "0", "net", "example"}, 1, 5))
	case 2:
		m.Nick = Q(genUnits(t, "nick", nickUnits, 1, 9))
	case 3, 4:
		m.Nick = Q(genUnits(t, "nick", nickUnits, 1, 9))
		m.User = Q(genUnits(t, "user", userUnits, 1, 8))
		m.Host = Q(genUnits(t, "host", hostUnits, 1, 12))
		if m.SrcKind == 4 {
			m.User = ""
		}
	}
	// CTCP class
	if rapid.IntRange(0, 7).Draw(t, "ctcp_class") == 0 {
		m.IsCTCP = true
		m.Verb = Q(genMixedCase(t, rapid.SampledFrom([]string{"PRIVMSG", "NOTICE"}).Draw(t, "ctcp_carrier"), "carrier"))
		target := genUnits(t, "nick", nickUnits, 1, 9)
		if rapid.Bool().Draw(t, "ctcp_public") {
			target = rapid.SampledFrom([]string{"#", "&", "+", "!"}).Draw(t, "chanprefix") + target
		}
		m.Middles = []Q{Q(target)}
		cv := rapid.SampledFrom([]string{"ACTION", "ACTION", "VERSION", "PING", "TIME", "DCC", "x", "Foo"}).Draw(t, "ctcp_verb")
		m.CVerb = Q(genMixedCase(t, cv, "ctcp_verb"))
		m.CText = Q(genUnits(t, "ctcp_text", ctcpTextUnits, 1, 12))
		m.Gaps = []int{rapid.IntRange(1, 3).Draw(t, "gap"), rapid.IntRange(1, 3).Draw(t, "gap")}
		return m
	}
	// verb
	switch rapid.IntRange(0, 9).Draw(t, "verb_kind") {
	case 0:
		m.Verb = Q(fmt.Sprintf("%03d", rapid.IntRange(0, 999).Draw(t, "numeric")))
	case 1:
		v := genUnits(t, "verb_letters", []string{"A", "b", "C", "x", "Q", "z", "M"}, 1, 8)
		if strings.EqualFold(v, "VSYNC") {
			v = "VSYNCX"
		}
		m.Verb = Q(v)
	default:
		m.Verb = Q(genMixedCase(t, rapid.SampledFrom(handledVerbs).Draw(t, "verb"), "verb"))
	}
	isMsg := strings.EqualFold(string(m.Verb), "PRIVMSG") || strings.EqualFold(string(m.Verb), "NOTICE")
	nmid := rapid.SampledFrom([]int{0, 0, 1, 1, 1, 2, 2, 3, 4, 6, 14}).Draw(t, "nmiddles")
	if nmid == 14 {
		nmid = rapid.IntRange(7, 14).Draw(t, "nmiddles_big")
	}
	for i := 0; i < nmid; i++ {
		m.Middles = append(m.Middles, Q(genParam(t, "middle", isMsg)))
		m.Gaps = append(m.Gaps, rapid.SampledFrom([]int{1, 1, 1, 2, 3}).Draw(t, "gap"))
	}
	if rapid.IntRange(0, 3).Draw(t, "has_trailing") > 0 {
		m.HasTrl = true
		m.Gaps = append(m.Gaps, rapid.SampledFrom([]int{1, 1, 1, 2, 3}).Draw(t, "gap"))
		if rapid.IntRange(0, 4).Draw(t, "trailing_empty") != 0 {
			trl := genUnits(t, "trailing", trailingUnits, 1, 14)
			if rapid.IntRange(0, 40).Draw(t, "long_trailing") == 0 {
				// longer than the reader's 4096-byte buffer
				trl += strings.Repeat("L", rapid.SampledFrom([]int{3900, 4000, 4090, 4100, 8192, 9000}).Draw(t, "long_len")+rapid.IntRange(0, 99).Draw(t, "long_off"))
			}
			if isMsg && trl[0] == '\x01' {
				trl = "z" + trl
			}
			m.Trl = Q(trl)
		}
	}
	return m
}

// ---------------------------------------------------------------------------
// oracle
// ---------------------------------------------------------------------------

func sameArgs(a, b []string) bool {
	if len(a) == 0 && len(b) == 0 {
		return true
	}
	return reflect.DeepEqual(a, b)
}

func sameTags(got, want map[string]string) bool {
	if (got == nil) != (want == nil) {
		return false
	}
	return len(got) == len(want) && (len(got) == 0 || reflect.DeepEqual(got, want))
}

func describeLine(l *client.Line) string {
	if l == nil {
		return "<nil>"
	}
	return fmt.Sprintf("{Tags:%q Nick:%q Ident:%q Host:%q Src:%q Cmd:%q Args:%q Raw:%q}", l.Tags, l.Nick, l.Ident, l.Host, l.Src, l.Cmd, l.Args, l.Raw)
}

func checkLineAgainst(prop string, l *client.Line, e c01Expect, where string) *Violation {
	if l == nil {
		return violationf(prop, "%s: well-formed message %q was rejected (nil line)", where, e.Raw)
	}
	switch {
	case !sameTags(l.Tags, e.Tags):
		return violationf(prop, "%s: %q: Tags = %q, want %q", where, e.Raw, l.Tags, e.Tags)
	case l.Src != e.Src || l.Nick != e.Nick || l.Ident != e.Ident || l.Host != e.Host:
		return violationf(prop, "%s: %q: source parsed as src=%q nick=%q ident=%q host=%q, want %q %q %q %q", where, e.Raw, l.Src, l.Nick, l.Ident, l.Host, e.Src, e.Nick, e.Ident, e.Host)
	case l.Cmd != e.Cmd:
		return violationf(prop, "%s: %q: Cmd = %q, want %q", where, e.Raw, l.Cmd, e.Cmd)
	case !sameArgs(l.Args, e.Args):
		return violationf(prop, "%s: %q: Args = %q, want %q", where, e.Raw, l.Args, e.Args)
	case l.Raw != e.Raw:
		return violationf(prop, "%s: Raw = %q, want %q", where, l.Raw, e.Raw)
	}
	return nil
}

// c01Conn is the long-lived client used by the connection leg.
type c01Conn struct {
	tc       *testClient
	mu       sync.Mutex
	handlers map[string]bool
	got      []*client.Line
	gotBG    []*client.Line
}

var c01c *c01Conn

func c01Client() (*c01Conn, *Violation) {
	if c01c != nil && c01c.tc.C.Connected() {
		return c01c, nil
	}
	cc := &c01Conn{handlers: map[string]bool{}}
	cc.tc = newTestClient(cliOpts{Flood: true})
	if err := cc.tc.connect(); err != nil {
		return nil, violationf("C01", "connect failed: %v", err)
	}
	c01c = cc
	return cc, nil
}

func (cc *c01Conn) ensureHandler(cmd string) {
	k := strings.ToLower(cmd)
	cc.mu.Lock()
	defer cc.mu.Unlock()
	if cc.handlers[k] {
		return
	}
	cc.handlers[k] = true
	// one foreground and one background handler; each keeps a deep copy of what it was given and then
	// edits its own line, which must not change what the other one receives
	rec := func(bg bool) client.HandlerFunc {
		return func(_ *client.Conn, l *client.Line) {
			cp := deepCopyLine(l)
			cc.mu.Lock()
			if bg {
				cc.gotBG = append(cc.gotBG, cp)
			} else {
				cc.got = append(cc.got, cp)
			}
			cc.mu.Unlock()
			scribble(l)
		}
	}
	cc.tc.C.HandleFunc(cmd, rec(false))
	cc.tc.C.HandleBG(cmd, rec(true))
}

func callAccessors(l *client.Line) (text, target string, public bool, panicked interface{}) {
	defer func() {
		if r := recover(); r != nil {
			panicked = r
		}
	}()
	text = l.Text()
	public = l.Public()
	target = l.Target()
	return
}

func parseNoPanic(s string) (l *client.Line, panicked interface{}) {
	defer func() {
		if r := recover(); r != nil {
			panicked = r
		}
	}()
	return client.ParseLine(s), nil
}

func runC01(m *c01Msg) *Violation {
	e := m.expect()
	wire := e.Raw
	l, p := parseNoPanic(wire)
	if p != nil {
		return violationf("C01", "ParseLine(%q) panicked: %v", wire, p)
	}
	if v := checkLineAgainst("C01", l, e, "ParseLine"); v != nil {
		return v
	}
	text, target, public, p := callAccessors(l)
	if p != nil {
		return violationf("C01", "accessor on ParseLine(%q) panicked: %v", wire, p)
	}
	if text != e.Text {
		return violationf("C01", "%q: Text() = %q, want %q", wire, text, e.Text)
	}
	if public != e.Public {
		return violationf("C01", "%q: Public() = %v, want %v", wire, public, e.Public)
	}
	if target != e.Target {
		return violationf("C01", "%q: Target() = %q, want %q", wire, target, e.Target)
	}
	// the same message again with the letter case of its source (or of some other component) flipped:
	// nothing remembered from the first parse may leak into the second
	if m.SrcKind != 0 && !m.variant {
		v := *m
		v.variant = true
		v.Host, v.Nick, v.User = Q(flipCase(string(m.Host))), Q(flipCase(string(m.Nick))), Q(flipCase(string(m.User)))
		if v.source() != m.source() {
			if viol := runC01(&v); viol != nil {
				viol.Msg = "(second message of the same process, letter case of the source flipped) " + viol.Msg
				return viol
			}
		}
	}
	if !m.Conn || m.variant {
		return nil
	}
	if m.FaultCut > 0 && m.FaultCut < len(wire) {
		return runC01Faulty(m, e, wire)
	}
	cc, v := c01Client()
	if v != nil {
		return v
	}
	cc.ensureHandler(e.Cmd)
	cc.mu.Lock()
	cc.got, cc.gotBG = nil, nil
	cc.mu.Unlock()
	cc.tc.conn().SendLine(wire)
	if !cc.tc.syncIn(stallTimeout()) {
		c01c = nil
		return violationf("C01", "connection leg: marker after %q never delivered (client stopped processing)", wire)
	}
	cc.mu.Lock()
	got := cc.got
	cc.mu.Unlock()
	if len(got) != 1 {
		return violationf("C01", "connection leg: handler for %q received %d lines for %q, want 1", e.Cmd, len(got), wire)
	}
	if v := checkLineAgainst("C01", got[0], e, "handler"); v != nil {
		return v
	}
	if got[0].Time.IsZero() {
		return violationf("C01", "connection leg: %q delivered with zero Time", wire)
	}
	// the background handler for the same verb
	if !waitCond(stallTimeout(), func() bool { cc.mu.Lock(); defer cc.mu.Unlock(); return len(cc.gotBG) >= 1 && dispatchFrames() == 0 }) {
		return violationf("C01", "connection leg: background handler for %q never received %q", e.Cmd, wire)
	}
	cc.mu.Lock()
	bg := cc.gotBG
	cc.mu.Unlock()
	if len(bg) != 1 {
		return violationf("C01", "connection leg: background handler for %q received %d lines for %q, want 1", e.Cmd, len(bg), wire)
	}
	if v := checkLineAgainst("C01", bg[0], e, "background handler"); v != nil {
		return v
	}
	return nil
}

// runC01Faulty: a fresh client receives the message in two reads with a transient read error between
// them. The client may give the connection up; if it delivers anything for the verb, it is the message.
func runC01Faulty(m *c01Msg, e c01Expect, wire string) *Violation {
	tc := newTestClient(cliOpts{Flood: true})
	defer tc.shutdown()
	var mu sync.Mutex
	var got []*client.Line
	tc.C.HandleFunc(e.Cmd, func(_ *client.Conn, l *client.Line) {
		mu.Lock()
		got = append(got, deepCopyLine(l))
		mu.Unlock()
	})
	if err := tc.connect(); err != nil {
		return violationf("C01", "connect failed: %v", err)
	}
	c := tc.conn()
	c.Send(wire[:m.FaultCut])
	c.SendErrOnce(ircsim.TempError{})
	c.Send(wire[m.FaultCut:] + "\r\n")
	// the client hangs up, or goes on and answers a marker: both are fine
	if !waitCond(100*time.Millisecond, func() bool { return !tc.C.Connected() }) {
		tc.syncIn(2 * time.Second)
	}
	waitCond(stallTimeout(), func() bool { return dispatchFrames() == 0 })
	mu.Lock()
	defer mu.Unlock()
	if len(got) > 1 {
		return violationf("C01", "transient read error inside %q (after %d bytes): %d events delivered for one message", wire, m.FaultCut, len(got))
	}
	for _, l := range got {
		if v := checkLineAgainst("C01", l, e, fmt.Sprintf("handler, message received in two reads with a transient read error after %d bytes", m.FaultCut)); v != nil {
			return v
		}
	}
	return nil
}

func flipCase(s string) string {
	b := []byte(s)
	for i, c := range b {
		switch {
		case c >= 'a' && c <= 'z':
			b[i] = c - 32
		case c >= 'A' && c <= 'Z':
			b[i] = c + 32
		}
	}
	return string(b)
}

// TestC01_Concurrent: several goroutines parse their own messages at the same time (two connections in
// one process do exactly that); each must get its own message back.
func TestC01_Concurrent(t *testing.T) {
	col := evid.New("C01", "concurrent leg: 2..6 goroutines each parsing its own generated message 300 times at once; every result must equal the goroutine's own expectation; non-trivial = some message has an escaped tag value; distinct by the set of wire texts")
	defer finish(t, col)
	rapid.Check(t, func(t *rapid.T) {
		n := rapid.IntRange(2, 6).Draw(t, "goroutines")
		var msgs []*c01Msg
		nt := false
		key := ""
		for i := 0; i < n; i++ {
			m := genC01(t)
			msgs = append(msgs, m)
			nt = nt || m.nontrivial()
			key += m.print() + "\n"
		}
		col.Case(key, nt, fmt.Sprintf("goroutines=%d", n))
		res := make(chan *Violation, n)
		start := make(chan struct{})
		for _, m := range msgs {
			m := m
			go func() {
				e := m.expect()
				<-start
				for k := 0; k < 300; k++ {
					l, p := parseNoPanic(e.Raw)
					if p != nil {
						res <- violationf("C01", "ParseLine(%q) panicked while other goroutines were parsing: %v", e.Raw, p)
						return
					}
					if v := checkLineAgainst("C01", l, e, "ParseLine, concurrently with other goroutines"); v != nil {
						res <- v
						return
					}
				}
				res <- nil
			}()
		}
		close(start)
		var first *Violation
		for range msgs {
			if v := <-res; v != nil && first == nil {
				first = v
			}
		}
		if first != nil {
			failRapid(t, "TestC01_Concurrent", first, msgs)
		}
	})
}

func TestC01_Concurrent_Replay(t *testing.T) {
	var msgs []*c01Msg
	loadReplay(t, &msgs)
	for round := 0; round < 50; round++ {
		done := make(chan *Violation, len(msgs))
		for _, m := range msgs {
			m := m
			go func() {
				e := m.expect()
				for k := 0; k < 300; k++ {
					if l, p := parseNoPanic(e.Raw); p != nil {
						done <- violationf("C01", "panic: %v", p)
						return
					} else if v := checkLineAgainst("C01", l, e, "concurrent"); v != nil {
						done <- v
						return
					}
				}
				done <- nil
			}()
		}
		for range msgs {
			if v := <-done; v != nil {
				t.Fatalf("REPRODUCED %s", v.Msg)
			}
		}
	}
}

func TestC01(t *testing.T) {
	col := evid.New("C01", "structured RFC2812/IRCv3 message values rendered by a reference printer; non-trivial = tag value needing an escape, or >=2 params with a multi-space gap, or empty / ' :'-containing trailing, or CTCP, or nick!user@host source; distinct by wire text")
	defer finish(t, col)
	connEvery := envInt("VERIF_C01_CONN_EVERY", 10)
	n := 0
	rapid.Check(t, func(t *rapid.T) {
		m := genC01(t)
		n++
		m.Conn = connEvery > 0 && n%connEvery == 0
		if m.Conn && n%(connEvery*16) == 0 {
			m.FaultCut = rapid.IntRange(1, 60).Draw(t, "fault_cut")
		}
		if m.Conn {
			journal(m)
		}
		v := runC01(m)
		col.Case(m.print(), m.nontrivial(), m.classes()...)
		col.Sample(map[string]interface{}{"wire": Q(m.print()), "conn_leg": m.Conn})
		if v != nil {
			failRapid(t, "TestC01", v, m)
		}
	})
	if c01c != nil {
		c01c.tc.shutdown()
	}
}

func TestC01_Replay(t *testing.T) {
	var m c01Msg
	loadReplay(t, &m)
	if v := runC01(&m); v != nil {
		b, _ := json.Marshal(v)
		t.Fatalf("REPRODUCED %s", b)
	}
}

// Regression seeds: inputs that exposed defects while the check was built.
func TestC01_Regress(t *testing.T) {
	col := evid.New("C01", "regression inputs")
	defer finish(t, col)
	cases := []*c01Msg{
		{HasTags: true, Tags: []c01Tag{{Key: "k", Kind: 2, Value: `a\b`}}, Verb: "X"},
		{HasTags: true, Tags: []c01Tag{{Key: "k", Kind: 2, Value: `a\s`}}, Verb: "X"},
		{Verb: "PRIVMSG"},
		{Verb: "PRIVMSG", Middles: []Q{"x"}, Gaps: []int{1}},
		{Verb: "NOTICE", HasTrl: true, Trl: "a", Gaps: []int{1}},
		{Verb: "privmsg", HasTrl: true, Trl: "", Gaps: []int{1}},
		{SrcKind: 4, Nick: "a", Host: "b", Verb: "X"},
	}
	for _, m := range cases {
		for _, conn := range []bool{false, true} {
			m.Conn = conn
			col.Case(m.print(), true, "regress")
			col.Sample(map[string]interface{}{"wire": Q(m.print())})
			if v := runC01(m); v != nil {
				writeReplay("TestC01", v, m)
				t.Errorf("VIOLATION C01: %s", v.Msg)
			}
		}
	}
	if c01c != nil {
		c01c.tc.shutdown()
		c01c = nil
	}
}

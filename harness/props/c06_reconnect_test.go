package props

import (
	"context"
	"encoding/json"
	"errors"
	"fmt"
	"runtime"
	"strings"
	"sync"
	"sync/atomic"
	"testing"
	"time"

	"verifharness/evid"

	"github.com/fluffle/goirc/client"
	"pgregory.net/rapid"
)

// ---------------------------------------------------------------------------
// C06, reconnect leg: the next Connect is issued by the application while the
// previous connection is still being torn down - from inside the DISCONNECTED
// handler, or from another goroutine the instant Connected() turns false - and
// the event counts are checked per connection.
// ---------------------------------------------------------------------------

type c06Reconnect struct {
	Tracking bool     `json:"tracking"`
	From     string   `json:"from"`     // handler: the DISCONNECTED handler calls Connect; racer: another goroutine polling Connected()
	Racers   int      `json:"racers"`   // racer mode: this many goroutines try at once (one wins, the others are refused or wait)
	Endings  []string `json:"endings"`  // how each connection but the last ends: close, eof, readerr, writeerr, cancel
	Backlog  int      `json:"backlog"`  // lines sent right before the ending ...
	SlowUS   int      `json:"slow_us"`  // ... each keeping a foreground handler busy this long, so the teardown takes a while
	Extra    bool     `json:"extra"`    // a refused Connect on the live connection before it ends
}

func genC06Reconnect(t *rapid.T) *c06Reconnect {
	sc := &c06Reconnect{
		Tracking: rapid.Bool().Draw(t, "tracking"),
		From:     rapid.SampledFrom([]string{"handler", "racer"}).Draw(t, "from"),
		Backlog:  rapid.IntRange(0, 12).Draw(t, "backlog"),
		SlowUS:   rapid.SampledFrom([]int{0, 100, 1000, 3000}).Draw(t, "slow_us"),
		Extra:    rapid.IntRange(0, 2).Draw(t, "extra") == 0,
		Racers:   1,
	}
	if sc.From == "racer" {
		sc.Racers = rapid.IntRange(1, 3).Draw(t, "racers")
	}
	if rapid.IntRange(0, 3).Draw(t, "big_backlog") == 0 {
		// more unprocessed lines than the client's queue and read buffer hold between them
		sc.Backlog = rapid.IntRange(70, 300).Draw(t, "backlog_big")
		if sc.SlowUS > 100 {
			sc.SlowUS = 100
		}
	}
	for k := rapid.IntRange(1, 3).Draw(t, "connections_ended"); k > 0; k-- {
		sc.Endings = append(sc.Endings, rapid.SampledFrom([]string{"close", "eof", "readerr", "writeerr", "cancel"}).Draw(t, "ending"))
	}
	return sc
}

func runC06Reconnect(sc *c06Reconnect) *Violation {
	tc := newTestClient(cliOpts{Flood: true, Tracking: sc.Tracking, CtxDialer: true})
	defer tc.release()
	var register, disconnected, discWhileUp, regRunning atomic.Int32
	var budget atomic.Int32 // reconnects the application still wants
	budget.Store(int32(len(sc.Endings)))
	var ctxMu sync.Mutex
	var cancels []context.CancelFunc
	var liveCancel context.CancelFunc // of the Connect that succeeded last
	lastCancel := func() context.CancelFunc {
		ctxMu.Lock()
		defer ctxMu.Unlock()
		return liveCancel
	}
	defer func() {
		ctxMu.Lock()
		for _, c := range cancels {
			c()
		}
		ctxMu.Unlock()
	}()
	type attempt struct {
		err        error
		regDelta   int32
		regRunning int32
	}
	attempts := make(chan attempt, 64)
	connect := func() {
		r0 := register.Load()
		ctx, cancel := context.WithCancel(context.Background())
		err := tc.C.ConnectContext(ctx)
		ctxMu.Lock()
		cancels = append(cancels, cancel)
		if err == nil {
			liveCancel = cancel
		}
		ctxMu.Unlock()
		attempts <- attempt{err, register.Load() - r0, regRunning.Load()}
	}
	tc.C.HandleFunc(client.REGISTER, func(c *client.Conn, l *client.Line) {
		regRunning.Add(1)
		runtime.Gosched()
		register.Add(1)
		regRunning.Add(-1)
	})
	tc.C.HandleFunc(client.DISCONNECTED, func(c *client.Conn, l *client.Line) {
		if c.Connected() {
			discWhileUp.Add(1)
		}
		disconnected.Add(1)
		if sc.From == "handler" && budget.Add(-1) >= 0 {
			connect()
		}
	})
	tc.C.HandleFunc("PRIVMSG", func(c *client.Conn, l *client.Line) {
		if sc.SlowUS > 0 {
			time.Sleep(time.Duration(sc.SlowUS) * time.Microsecond)
		}
	})
	fail := func(format string, a ...interface{}) *Violation {
		_, dump := goircGoroutines()
		return &Violation{Property: "C06", Msg: fmt.Sprintf(format, a...), Detail: dump}
	}
	defer func() {
		budget.Store(-1 << 20)
		for _, c := range tc.S.Conns() {
			c.EOFNow()
		}
		go tc.C.Close()
	}()
	connect()
	if a := <-attempts; a.err != nil || a.regDelta != 1 || a.regRunning != 0 {
		return fail("first Connect: err=%v, REGISTER handlers completed %d times (running %d) when it returned", a.err, a.regDelta, a.regRunning)
	}
	for k, ending := range sc.Endings {
		conn := tc.conn()
		conn.SendLine(":irc.server 001 me :Welcome")
		if !tc.syncOut(stallTimeout()) {
			return fail("connection %d does not answer PING", k+1)
		}
		if !tc.C.Connected() {
			return fail("connection %d: Connected() false although nothing ended it", k+1)
		}
		if sc.Extra {
			r0 := register.Load()
			if err := tc.C.Connect(); err == nil {
				return fail("connection %d: Connect on a connected client returned nil", k+1)
			}
			if register.Load() != r0 {
				return fail("connection %d: refused Connect fired REGISTER", k+1)
			}
		}
		nconns := len(tc.S.Conns())
		d0, r0 := disconnected.Load(), register.Load()
		// the application's supervisor goroutines: reconnect the moment the client reports it is down
		var rwg sync.WaitGroup
		var downSeen atomic.Bool // (a supervisor may miss the short window in which the client reports it is down)
		if sc.From == "racer" {
			for i := 0; i < sc.Racers; i++ {
				rwg.Add(1)
				go func() {
					defer rwg.Done()
					for tc.C.Connected() && !downSeen.Load() {
						runtime.Gosched()
					}
					downSeen.Store(true)
					connect()
				}()
			}
		}
		// (one write by the server: the lines reach the client's read buffer together)
		var burst strings.Builder
		for i := 0; i < sc.Backlog; i++ {
			burst.WriteString(fmt.Sprintf(":a!b@c PRIVMSG me :%d\r\n", i))
		}
		conn.Send(burst.String())
		closed := make(chan struct{})
		switch ending {
		case "close":
			go func() { tc.C.Close(); close(closed) }()
		case "eof":
			conn.EOF()
			close(closed)
		case "readerr":
			conn.FailRead(errors.New("injected read error"), false)
			close(closed)
		case "writeerr":
			conn.FailWrites(errors.New("injected write error"))
			conn.SendLine("PING :trigger")
			close(closed)
		case "cancel":
			lastCancel()()
			close(closed)
		}
		// exactly one Connect succeeds, and REGISTER had been dispatched exactly once when it returned
		want := 1
		if sc.From == "racer" {
			want = sc.Racers
		}
		succeeded := 0
		for i := 0; i < want; i++ {
			select {
			case a := <-attempts:
				if a.err == nil {
					succeeded++
					if sc.From == "handler" && (a.regDelta != 1 || a.regRunning != 0) {
						return fail("connection %d (%s), Connect from the DISCONNECTED handler: REGISTER handlers completed %d times (running %d) when it returned", k+2, ending, a.regDelta, a.regRunning)
					}
				}
			case <-time.After(stallTimeout()):
				return fail("connection %d ended by %s: a Connect issued from %s never returned", k+1, ending, sc.From)
			}
		}
		rwg.Wait()
		select {
		case <-closed:
		case <-time.After(stallTimeout()):
			return fail("connection %d: Close never returned", k+1)
		}
		if succeeded != 1 {
			return fail("connection %d ended by %s: %d of %d concurrent Connect calls succeeded, want exactly one", k+1, ending, succeeded, want)
		}
		// the old connection's DISCONNECTED is due now - while the new connection is up and stays up
		if !waitCond(stallTimeout(), func() bool { return disconnected.Load() > d0 }) {
			return fail("connection %d ended by %s: its DISCONNECTED was not delivered although the next connection is already up", k+1, ending)
		}
		if !waitCond(stallTimeout(), func() bool { return len(tc.S.Conns()) > nconns }) {
			return fail("reconnect after connection %d dialled nothing", k+1)
		}
		time.Sleep(300 * time.Microsecond)
		if got := disconnected.Load() - d0; got != 1 {
			return fail("connection %d ended by %s: DISCONNECTED delivered %d times", k+1, ending, got)
		}
		if got := register.Load() - r0; got != 1 {
			return fail("reconnect after connection %d: REGISTER delivered %d times for one successful Connect", k+1, got)
		}
		if !tc.C.Connected() {
			return fail("connection %d: Connected() false right after a successful Connect", k+2)
		}
	}
	// the last connection: still fully working, then closed by the application
	conn := tc.conn()
	conn.SendLine(":irc.server 001 me :Welcome")
	if !tc.syncOut(stallTimeout()) {
		return fail("the last connection does not answer PING")
	}
	budget.Store(-1 << 20)
	d0 := disconnected.Load()
	done := make(chan struct{})
	go func() { tc.C.Close(); close(done) }()
	select {
	case <-done:
	case <-time.After(stallTimeout()):
		return fail("final Close never returned")
	}
	if !waitCond(stallTimeout(), func() bool { n, _, _ := connGoroutines(tc.C); return n == 0 }) {
		return fail("goroutines left after the final Close")
	}
	if got := disconnected.Load() - d0; got != 1 {
		return fail("final Close: DISCONNECTED delivered %d times", got)
	}
	if int(register.Load()) != len(sc.Endings)+1 || int(disconnected.Load()) != len(sc.Endings)+1 {
		return fail("%d connections were established: REGISTER fired %d times, DISCONNECTED %d times", len(sc.Endings)+1, register.Load(), disconnected.Load())
	}
	if n := discWhileUp.Load(); n != 0 && sc.From == "handler" {
		return fail("Connected() was true inside a DISCONNECTED handler (%d times)", n)
	}
	return nil
}

func TestC06_Reconnect(t *testing.T) {
	col := evid.New("C06", "reconnect leg: 2..4 connections of one client, each but the last ended by Close / EOF / read error / write error / context cancellation with 0..12 lines of slow foreground work still pending, the next Connect issued from inside the DISCONNECTED handler or by 1..3 goroutines the instant Connected() turns false; oracle: exactly one Connect succeeds, REGISTER and DISCONNECTED fire exactly once per connection, the old DISCONNECTED arrives while the new connection is up; non-trivial always; distinct by scenario")
	defer finish(t, col)
	rapid.Check(t, func(t *rapid.T) {
		sc := genC06Reconnect(t)
		journal(sc)
		v := runC06Reconnect(sc)
		b, _ := json.Marshal(sc)
		cls := []string{"reconnect_from=" + sc.From}
		for _, e := range sc.Endings {
			cls = append(cls, "reconnect_after="+e)
		}
		col.Case(string(b), true, uniqStrings(cls)...)
		col.Sample(sc)
		if v != nil {
			failRapid(t, "TestC06_Reconnect", v, sc)
		}
	})
}

func TestC06_Reconnect_Replay(t *testing.T) {
	var sc c06Reconnect
	loadReplay(t, &sc)
	for i := 0; i < envInt("VERIF_REPLAY_RUNS", 50); i++ {
		if v := runC06Reconnect(&sc); v != nil {
			t.Fatalf("REPRODUCED (run %d): %s", i+1, v.Msg)
		}
	}
}

package props

import (
	"encoding/json"
	"fmt"
	"strings"
	"testing"
	"time"

	"verifharness/evid"

	"pgregory.net/rapid"
)

// ---------------------------------------------------------------------------
// C08, session leg: the same calls in the corners the long-lived wire client
// never visits - flood control switched on (at construction or on the live
// client), and calls made while the client is not connected, followed by a
// (re)connection whose whole transcript is examined.
// ---------------------------------------------------------------------------

type c08Session struct {
	Mode  string    `json:"mode"` // flood_on, flood_toggle, closed, server_eof, write_error
	Short int       `json:"short"` // write_error: the write of the first call's line takes this many bytes, then fails
	Calls []c08Case `json:"calls"`
}

func genC08Session(t *rapid.T) *c08Session {
	sc := &c08Session{Mode: rapid.SampledFrom([]string{"flood_on", "flood_toggle", "closed", "server_eof", "write_error", "write_error"}).Draw(t, "mode")}
	n := rapid.IntRange(1, 6).Draw(t, "ncalls")
	if strings.HasPrefix(sc.Mode, "flood") {
		// few short lines: the rate limiter must not start sleeping (each line is charged 2 s + 1/120 s per
		// byte against an allowance of 10 s, and with flood control on from the start NICK and USER count)
		n = 1
		if sc.Mode == "flood_toggle" {
			n = rapid.IntRange(1, 3).Draw(t, "ncalls_flood")
		}
	}
	sc.Short = rapid.IntRange(0, 40).Draw(t, "short")
	maxUnits := 6
	if strings.HasPrefix(sc.Mode, "flood") {
		maxUnits = 3
	}
	for i := 0; i < n; i++ {
		var m c08Method
		for {
			m = rapid.SampledFrom(c08Methods).Draw(t, "method")
			if m.Name != "Raw" && m.Name != "Quit" {
				break
			}
		}
		c := c08Case{Method: m.Name, SplitLen: 450}
		for k := 0; k < m.NArgs; k++ {
			c.Args = append(c.Args, Q(genUnits(t, fmt.Sprintf("arg%d", k), hostileUnits, 1, maxUnits)))
		}
		if m.Var {
			for k := rapid.IntRange(0, 2).Draw(t, "nvar"); k > 0; k-- {
				c.Var = append(c.Var, Q(genUnits(t, "var", hostileUnits, 1, maxUnits)))
			}
		}
		sc.Calls = append(sc.Calls, c)
	}
	return sc
}

func (sc *c08Session) hasNewline() bool {
	for i := range sc.Calls {
		if nl, _ := sc.Calls[i].hasNewline(); nl {
			return true
		}
	}
	return false
}

func runC08Session(sc *c08Session) *Violation {
	floodOff := sc.Mode != "flood_on" // goirc's naming: Flood == true switches the protection off
	tc := newTestClient(cliOpts{Flood: floodOff, Nick: "me"})
	defer tc.shutdown()
	cfg := tc.C.Config()
	cfg.Version = "v\r\nQUIT :pwn"
	doCalls := func() *Violation {
		done := make(chan interface{}, 1)
		go func() {
			defer func() { done <- recover() }()
			for i := range sc.Calls {
				c := &sc.Calls[i]
				for k := range c08Methods {
					if c08Methods[k].Name == c.Method {
						c08Methods[k].Call(tc.C, unq(c.Args), unq(c.Var))
					}
				}
			}
		}()
		select {
		case p := <-done:
			if p != nil {
				return violationf("C08", "API call panicked: %v", p)
			}
		case <-time.After(stallTimeout()):
			_, dump := goircGoroutines()
			return &Violation{Property: "C08", Msg: "API calls did not return (" + sc.Mode + ")", Detail: dump}
		}
		return nil
	}
	welcome := func() *Violation {
		tc.conn().SendLine(":irc.server 001 me :Welcome")
		if !tc.syncIn(stallTimeout()) || (sc.Mode != "flood_on" && !tc.syncOut(stallTimeout())) {
			return violationf("C08", "%s: the connection does not answer after the welcome", sc.Mode)
		}
		return nil
	}
	switch sc.Mode {
	case "flood_on", "flood_toggle":
		if err := tc.connect(); err != nil {
			return violationf("C08", "connect: %v", err)
		}
		if v := welcome(); v != nil {
			return v
		}
		if sc.Mode == "flood_toggle" {
			cfg.Flood = false
		}
		if v := doCalls(); v != nil {
			return v
		}
	// (a client that was never connected is not a mode: there every command method blocks for ever on the
	// not yet created output queue, so nothing reaches any wire - which is all this property is about)
	case "closed", "server_eof", "write_error":
		if err := tc.connect(); err != nil {
			return violationf("C08", "connect: %v", err)
		}
		if v := welcome(); v != nil {
			return v
		}
		switch sc.Mode {
		case "closed":
			tc.C.Close()
		case "server_eof":
			tc.conn().EOFNow()
		default:
			// the link breaks while the first call's line is being written: part of it was taken, the
			// rest must not turn up anywhere as a line of its own
			tc.conn().ShortFailNext(sc.Short)
			if v := doCalls(); v != nil {
				return v
			}
		}
		if !waitCond(stallTimeout(), func() bool { return !tc.C.Connected() }) {
			return violationf("C08", "client still connected after %s", sc.Mode)
		}
		waitCond(stallTimeout(), func() bool { n, _, _ := connGoroutines(tc.C); return n == 0 })
		if v := doCalls(); v != nil {
			return v
		}
		if err := tc.connect(); err != nil {
			return violationf("C08", "reconnect: %v", err)
		}
	}
	if !strings.HasPrefix(sc.Mode, "flood") {
		if v := welcome(); v != nil {
			return v
		}
	}
	if !tc.syncOut(stallTimeout()) {
		return violationf("C08", "%s: no answer to the final PING", sc.Mode)
	}
	// every byte of the (last) connection's transcript
	out := tc.conn().Written()
	lines, v := checkWholeLines("C08", out)
	if v != nil {
		v.Msg = sc.Mode + ": " + v.Msg
		return v
	}
	allowed := map[string]bool{"PONG": true}
	for i := range sc.Calls {
		for k := range c08Methods {
			if c08Methods[k].Name == sc.Calls[i].Method {
				allowed[c08Methods[k].Verb] = true
			}
		}
	}
	for _, l := range lines {
		if l == "NICK me" || l == "USER ident 12 * :Real Name" {
			continue
		}
		verb := l
		if i := strings.IndexByte(l, ' '); i >= 0 {
			verb = l[:i]
		}
		if !allowed[verb] {
			b, _ := json.Marshal(lines)
			return &Violation{Property: "C08", Msg: fmt.Sprintf("%s: a line beginning with %q reached the wire although no call made produces that verb: %q", sc.Mode, verb, l), Detail: map[string]string{"transcript": string(b)}}
		}
	}
	return nil
}

func TestC08_Session(t *testing.T) {
	col := evid.New("C08", "session leg: 1..6 command calls with hostile arguments on a client with flood control on (from construction or switched on through Config() on the live client) or made while the client is not connected (after Close / after server EOF) and then (re)connected and welcomed; oracle: the whole transcript of the last connection is whole CRLF lines whose verb is the registration's, PONG, or that of a call made; non-trivial = some argument contains CR or LF; distinct by scenario")
	defer finish(t, col)
	rapid.Check(t, func(t *rapid.T) {
		sc := genC08Session(t)
		v := runC08Session(sc)
		b, _ := json.Marshal(sc)
		col.Case(string(b), sc.hasNewline(), "mode="+sc.Mode)
		if len(b) < 400 {
			col.Sample(sc)
		}
		if v != nil {
			failRapid(t, "TestC08_Session", v, sc)
		}
	})
}

func TestC08_Session_Replay(t *testing.T) {
	var sc c08Session
	loadReplay(t, &sc)
	for i := 0; i < envInt("VERIF_REPLAY_RUNS", 20); i++ {
		if v := runC08Session(&sc); v != nil {
			t.Fatalf("REPRODUCED %s", v.Msg)
		}
	}
}

// ---------------------------------------------------------------------------
// C08, long-stall leg: the server stops reading for several seconds, the output
// queue is full, and command calls with hostile arguments wait all that time
// for a free slot. (One scenario costs the stall, so only a few are run.)
// ---------------------------------------------------------------------------

func runC08LongStall(sc *c08Session, stall time.Duration) *Violation {
	tc := newTestClient(cliOpts{Flood: true, Nick: "me"})
	defer tc.shutdown()
	if err := tc.connect(); err != nil {
		return violationf("C08", "connect: %v", err)
	}
	conn := tc.conn()
	if !tc.syncOut(stallTimeout()) {
		return violationf("C08", "registration never completed")
	}
	base := len(conn.Written())
	conn.Gate(true)
	fillDone := make(chan struct{})
	go func() {
		defer close(fillDone)
		for i := 0; i < 40; i++ { // more than the queue holds: the last ones block
			tc.C.Raw(fmt.Sprintf("FILL %d", i))
		}
	}()
	time.Sleep(20 * time.Millisecond)
	callsDone := make(chan interface{}, 1)
	go func() {
		defer func() { callsDone <- recover() }()
		for i := range sc.Calls {
			c := &sc.Calls[i]
			for k := range c08Methods {
				if c08Methods[k].Name == c.Method {
					c08Methods[k].Call(tc.C, unq(c.Args), unq(c.Var))
				}
			}
		}
	}()
	time.Sleep(stall)
	conn.Gate(false)
	for _, ch := range []chan struct{}{fillDone} {
		select {
		case <-ch:
		case <-time.After(stallTimeout()):
			return violationf("C08", "calls blocked behind a stalled server never returned after it resumed reading")
		}
	}
	select {
	case p := <-callsDone:
		if p != nil {
			return violationf("C08", "API call panicked: %v", p)
		}
	case <-time.After(stallTimeout()):
		return violationf("C08", "calls blocked behind a stalled server never returned after it resumed reading")
	}
	if !tc.syncOut(stallTimeout()) {
		return violationf("C08", "no answer to the final PING after a %v stall", stall)
	}
	lines, v := checkWholeLines("C08", conn.Written()[base:])
	if v != nil {
		v.Msg = fmt.Sprintf("after a %v stall with a full queue: %s", stall, v.Msg)
		return v
	}
	allowed := map[string]bool{"PONG": true, "FILL": true}
	for i := range sc.Calls {
		for k := range c08Methods {
			if c08Methods[k].Name == sc.Calls[i].Method {
				allowed[c08Methods[k].Verb] = true
			}
		}
	}
	for _, l := range lines {
		verb := l
		if i := strings.IndexByte(l, ' '); i >= 0 {
			verb = l[:i]
		}
		if !allowed[verb] {
			return violationf("C08", "after a %v stall with a full queue a line beginning with %q reached the wire although no call made produces that verb: %q", stall, verb, l)
		}
	}
	return nil
}

func TestC08_LongStall(t *testing.T) {
	col := evid.New("C08", "long-stall leg: the server stops reading for 5.6 s while the output queue is full; 1..6 command calls with hostile arguments wait for a slot all that time; the transcript must still consist of whole lines of the verbs called; non-trivial = some argument contains CR or LF; distinct by scenario")
	defer finish(t, col)
	stall := time.Duration(envInt("VERIF_C08_STALL_MS", 5600)) * time.Millisecond
	rapid.Check(t, func(t *rapid.T) {
		sc := genC08Session(t)
		sc.Mode = "long_stall"
		if !sc.hasNewline() {
			// make sure the expensive scenario is a non-trivial one
			sc.Calls = append(sc.Calls, c08Case{Method: "Privmsg", Args: []Q{"#chan", "hello\r\nQUIT :pwn"}, SplitLen: 450})
		}
		v := runC08LongStall(sc, stall)
		b, _ := json.Marshal(sc)
		col.Case(string(b), sc.hasNewline(), "mode=long_stall")
		col.Sample(sc)
		if v != nil {
			failRapid(t, "TestC08_LongStall", v, sc)
		}
	})
}

func TestC08_LongStall_Replay(t *testing.T) {
	var sc c08Session
	loadReplay(t, &sc)
	if v := runC08LongStall(&sc, time.Duration(envInt("VERIF_C08_STALL_MS", 5600))*time.Millisecond); v != nil {
		t.Fatalf("REPRODUCED %s", v.Msg)
	}
}

package props

import (
	"encoding/json"
	"fmt"
	"runtime"
	"sort"
	"strings"
	"sync"
	"sync/atomic"
	"testing"
	"time"

	"verifharness/evid"

	"github.com/fluffle/goirc/client"
	"pgregory.net/rapid"
)

// ---------------------------------------------------------------------------
// C04: registration / removal histories
// ---------------------------------------------------------------------------

type c04Op struct {
	Op     string `json:"op"`               // reg, remove, event, arm, race
	Kind   string `json:"kind,omitempty"`   // fg, fgfunc, bg (reg, race-reg, arm add*)
	Name   string `json:"name,omitempty"`   // event name as written (any letter case)
	ID     int    `json:"id,omitempty"`     // handler the op is about / id reserved for a new handler
	Script string `json:"script,omitempty"` // arm: selfremove, removeother, add; race: reg, remove
	Other  int    `json:"other,omitempty"`  // arm/removeother: target; arm/add: reserved id
	Yields int    `json:"yields,omitempty"`
}

type c04Scenario struct {
	// PreRegs leading "reg" ops are executed before the permanent sentinels are registered, so that
	// user handlers can be first in their list.
	PreRegs int     `json:"pre_regs"`
	Ops     []c04Op `json:"ops"`
	// Solo: at the end, a name that has exactly ONE handler in its set (no sentinels on it), which
	// mutates that same set from inside the handler: "" none, else fg/bg + ":" + selfremove/add
	Solo string `json:"solo"`
	// SoloCase: the letter case the solo handlers are registered under (events arrive as EVSOLO): 0 the same, 1 lower, 2 mixed
	SoloCase int `json:"solo_case"`
	// Blocker: a background handler on this name parks its first invocation until the scenario ends
	Blocker string `json:"blocker"`
}

type c04H struct {
	id     int
	name   string // lower-case
	bg     bool
	alive  bool
	doomed bool // will be removed by an armed script, or was removed: never target again
	armed  *c04Op
}

type c04Model struct {
	hs     map[int]*c04H
	nextID int
}

func newC04Model() *c04Model { return &c04Model{hs: map[int]*c04H{}, nextID: 1} }

func (m *c04Model) expected(name string) (fg, bg []int) {
	for id, h := range m.hs {
		if h.alive && h.name == strings.ToLower(name) {
			if h.bg {
				bg = append(bg, id)
			} else {
				fg = append(fg, id)
			}
		}
	}
	sort.Ints(fg)
	sort.Ints(bg)
	return
}

// afterEvent applies the scripts of the armed handlers that ran.
func (m *c04Model) afterEvent(name string, skip map[int]bool) {
	fg, bg := m.expected(name)
	for _, id := range append(fg, bg...) {
		h := m.hs[id]
		if h.armed == nil {
			continue
		}
		a := h.armed
		h.armed = nil
		if skip[id] {
			continue
		}
		switch a.Script {
		case "selfremove":
			h.alive = false
		case "removeother":
			m.hs[a.Other].alive = false
		case "add":
			m.hs[a.Other] = &c04H{id: a.Other, name: strings.ToLower(a.Name), bg: a.Kind == "bg", alive: true}
		}
	}
}

var c04Names = []string{"EVA", "eva", "EvA", "EVB", "evb", "eVb", "EVC", "evc", "Evc", "PING", "ping", "PiNg",
	"QUIZ", "quiz", "quiZ", "ABCDEFGHIJKLMNOPQRSTUVWXYZ", "abcdefghijklmnopqrstuvwxyz", "AbCdEfGhIjKlMnOpQrStUvWxYz"}

func genC04(t *rapid.T) *c04Scenario {
	sc := &c04Scenario{}
	m := newC04Model()
	n := rapid.IntRange(5, 40).Draw(t, "nsteps")
	name := func() string { return rapid.SampledFrom(c04Names).Draw(t, "name") }
	kind := func() string { return rapid.SampledFrom([]string{"fg", "fgfunc", "bg", "bg"}).Draw(t, "kind") }
	targets := func(pred func(*c04H) bool) []int {
		var ids []int
		for id, h := range m.hs {
			if h.alive && !h.doomed && pred(h) {
				ids = append(ids, id)
			}
		}
		sort.Ints(ids)
		return ids
	}
	reg := func(k, nm string) int {
		o := c04Op{Op: "reg", Kind: k, Name: nm, ID: m.nextID}
		m.nextID++
		m.hs[o.ID] = &c04H{id: o.ID, name: strings.ToLower(o.Name), bg: o.Kind == "bg", alive: true}
		sc.Ops = append(sc.Ops, o)
		return o.ID
	}
	sc.PreRegs = rapid.IntRange(0, 3).Draw(t, "pre_regs")
	for i := 0; i < sc.PreRegs; i++ {
		reg(kind(), name())
	}
	if rapid.IntRange(0, 3).Draw(t, "bulk") == 0 {
		// a long list under one name whose first members mutate the same set from inside the handler
		k, nm := kind(), name()
		cnt := rapid.IntRange(15, 40).Draw(t, "bulk_n")
		var ids []int
		for i := 0; i < cnt; i++ {
			ids = append(ids, reg(k, nm))
		}
		na := rapid.IntRange(1, 3).Draw(t, "bulk_armed")
		for i := 0; i < na; i++ {
			id := ids[i]
			o := c04Op{Op: "arm", ID: id, Script: rapid.SampledFrom([]string{"selfremove", "add"}).Draw(t, "bulk_script")}
			if o.Script == "selfremove" {
				m.hs[id].doomed = true
			} else {
				o.Kind, o.Name, o.Other = k, nm, m.nextID
				m.nextID++
			}
			m.hs[id].armed = &o
			sc.Ops = append(sc.Ops, o)
		}
		sc.Ops = append(sc.Ops, c04Op{Op: "event", Name: nm})
		m.afterEvent(nm, nil)
	}
	for i := 0; i < n; i++ {
		switch rapid.SampledFrom([]string{"reg", "reg", "reg", "remove", "event", "event", "event", "arm", "arm", "race", "track"}).Draw(t, "op") {
		case "track":
			// enabling / disabling state tracking adds and removes internal handlers on a live client:
			// the user's handler sets must be unaffected
			sc.Ops = append(sc.Ops, c04Op{Op: "track"})
		case "reg":
			reg(kind(), name())
		case "remove":
			ids := targets(func(h *c04H) bool { return h.armed == nil })
			if len(ids) == 0 {
				continue
			}
			id := rapid.SampledFrom(ids).Draw(t, "remove_id")
			m.hs[id].alive, m.hs[id].doomed = false, true
			sc.Ops = append(sc.Ops, c04Op{Op: "remove", ID: id})
		case "event":
			nm := name()
			sc.Ops = append(sc.Ops, c04Op{Op: "event", Name: nm})
			m.afterEvent(nm, nil)
		case "arm":
			ids := targets(func(h *c04H) bool { return h.armed == nil })
			if len(ids) == 0 {
				continue
			}
			id := rapid.SampledFrom(ids).Draw(t, "arm_id")
			o := c04Op{Op: "arm", ID: id, Script: rapid.SampledFrom([]string{"selfremove", "removeother", "add", "add"}).Draw(t, "script")}
			switch o.Script {
			case "selfremove":
				m.hs[id].doomed = true
			case "removeother":
				others := targets(func(h *c04H) bool { return h.id != id && h.armed == nil })
				if len(others) == 0 {
					continue
				}
				o.Other = rapid.SampledFrom(others).Draw(t, "other")
				m.hs[o.Other].doomed = true
			case "add":
				o.Kind, o.Name, o.Other = kind(), name(), m.nextID
				if rapid.Bool().Draw(t, "add_same_name") {
					o.Name = strings.ToUpper(m.hs[id].name)
				}
				m.nextID++
			}
			m.hs[id].armed = &o
			sc.Ops = append(sc.Ops, o)
		case "race":
			o := c04Op{Op: "race", Name: name(), Yields: rapid.IntRange(0, 30).Draw(t, "yields")}
			if rapid.Bool().Draw(t, "race_reg") {
				o.Script, o.Kind, o.ID = "reg", kind(), m.nextID
				m.nextID++
				if rapid.Bool().Draw(t, "race_other_name") {
					// register under a different name than the event in flight
					o.Script = "reg-other"
				}
			} else {
				ids := targets(func(h *c04H) bool { return h.armed == nil })
				if len(ids) == 0 {
					continue
				}
				o.Script, o.ID = "remove", rapid.SampledFrom(ids).Draw(t, "race_remove_id")
			}
			sc.Ops = append(sc.Ops, o)
			// model effects
			switch o.Script {
			case "reg":
				m.hs[o.ID] = &c04H{id: o.ID, name: strings.ToLower(o.Name), bg: o.Kind == "bg", alive: true}
				m.afterEvent(o.Name, map[int]bool{})
			case "reg-other":
				m.hs[o.ID] = &c04H{id: o.ID, name: "evother", bg: o.Kind == "bg", alive: true}
				m.afterEvent(o.Name, map[int]bool{})
			case "remove":
				// scripts of other armed handlers on this name still fire; the racing target is unarmed
				m.afterEvent(o.Name, nil)
				m.hs[o.ID].alive, m.hs[o.ID].doomed = false, true
			}
		}
	}
	sc.Ops = append(sc.Ops, c04Op{Op: "event", Name: "EVA"}, c04Op{Op: "event", Name: "evb"}, c04Op{Op: "event", Name: "Evc"}, c04Op{Op: "event", Name: "PING"})
	sc.Solo = rapid.SampledFrom([]string{"", "fg:selfremove", "fg:add", "bg:selfremove", "bg:add"}).Draw(t, "solo")
	sc.SoloCase = rapid.IntRange(0, 2).Draw(t, "solo_case")
	sc.Blocker = rapid.SampledFrom([]string{"", "", "EVA", "evb", "PING"}).Draw(t, "blocker")
	return sc
}

type c04Handler struct {
	f func(*client.Conn, *client.Line)
}

func (h c04Handler) Handle(c *client.Conn, l *client.Line) { h.f(c, l) }

type c04Run struct {
	tc       *testClient
	mu       sync.Mutex
	inv      map[int]map[int]int // event -> handler id -> count
	removers map[int]client.Remover
	armed    map[int]*c04Op
	pinFail  map[int]bool
	fgSent   map[int]chan struct{}
	bgSent   map[int]chan struct{}
	panics   []string
	kinds    map[int]bool // id -> is background
	blocked  atomic.Int32 // 1 while the blocker's first invocation is parked
	release  chan struct{}
}

// residualFrames: goroutines that legitimately stay inside dispatch between events.
func (r *c04Run) residualFrames() int {
	if r.blocked.Load() == 1 {
		return 2 // the parked handler invocation and the background dispatch goroutine waiting for it
	}
	return 0
}

// c04Blocker is a background handler whose first invocation never returns until the scenario ends,
// so that later registrations / removals / events happen while a dispatch on that set is in flight.
type c04Blocker struct{ r *c04Run }

func (b c04Blocker) Handle(c *client.Conn, l *client.Line) {
	if b.r.blocked.CompareAndSwap(0, 1) {
		<-b.r.release
		b.r.blocked.Store(2)
	}
}

// settled reports whether nothing is in flight inside dispatch apart from the deliberately parked
// background handler: its own goroutine, and the dispatch goroutine that started it, which must be
// *waiting* for its handlers (inside WaitGroup.Wait) - while that goroutine is still in its loop starting
// handler goroutines, some handlers of the event do not exist as goroutines yet.
func (r *c04Run) settled() bool {
	want := r.residualFrames()
	n := 0
	for _, g := range strings.Split(goroutineDump(), "\n\n") {
		if !(strings.Contains(g, "goirc/client.(*hSet).dispatch") || strings.Contains(g, "goirc/client.(*hNode).Handle") || strings.Contains(g, "goirc/client.(*Conn).dispatch")) {
			continue
		}
		n++
		if n > want {
			return false
		}
		if !strings.Contains(g, "goirc/client.(*hNode).Handle") && !strings.Contains(g, "sync.(*WaitGroup).Wait") {
			return false // a dispatch that is still starting handlers
		}
	}
	return n == want
}

func dispatchFrames() int {
	d := goroutineDump()
	n := 0
	for _, g := range strings.Split(d, "\n\n") {
		// "(*Conn).dispatch" also covers the compiler's wrapper for `go conn.bgHandlers.dispatch(...)`
		// ((*Conn).dispatch.gowrap1): a background dispatch that has been started but not scheduled yet
		if strings.Contains(g, "goirc/client.(*hSet).dispatch") || strings.Contains(g, "goirc/client.(*hNode).Handle") || strings.Contains(g, "goirc/client.(*Conn).dispatch") {
			n++
		}
	}
	return n
}

func (r *c04Run) eventNo(l *client.Line) int {
	var n int
	fmt.Sscanf(l.Text(), "%d", &n)
	return n
}

func (r *c04Run) register(id int, kind, name string) {
	f := func(c *client.Conn, l *client.Line) {
		ev := r.eventNo(l)
		r.mu.Lock()
		if r.inv[ev] == nil {
			r.inv[ev] = map[int]int{}
		}
		r.inv[ev][id]++
		a := r.armed[id]
		delete(r.armed, id)
		fgS, bgS := r.fgSent[ev], r.bgSent[ev]
		r.mu.Unlock()
		if a == nil {
			return
		}
		// pin: a script that touches the *other* handler set first waits until that set has taken its
		// snapshot for this event; same-set mutations need no pin (the snapshot that invoked us exists)
		pin := bgS
		if kind == "bg" {
			pin = fgS
		}
		cross := true
		r.mu.Lock()
		switch a.Script {
		case "selfremove":
			cross = false
		case "removeother":
			cross = r.kinds[a.Other] != (kind == "bg")
		case "add":
			cross = (a.Kind == "bg") != (kind == "bg")
		}
		r.mu.Unlock()
		if pin != nil && cross {
			select {
			case <-pin:
			case <-time.After(2 * time.Second):
				r.mu.Lock()
				r.pinFail[id] = true
				r.mu.Unlock()
			}
		}
		switch a.Script {
		case "selfremove":
			r.remove(id)
		case "removeother":
			r.remove(a.Other)
		case "add":
			r.register(a.Other, a.Kind, a.Name)
		}
	}
	var rem client.Remover
	switch kind {
	case "fg":
		rem = r.tc.C.Handle(name, c04Handler{f})
	case "fgfunc":
		rem = r.tc.C.HandleFunc(name, f)
	default:
		rem = r.tc.C.HandleBG(name, client.HandlerFunc(f))
	}
	r.mu.Lock()
	r.removers[id] = rem
	r.kinds[id] = kind == "bg"
	r.mu.Unlock()
}

func (r *c04Run) remove(id int) {
	r.mu.Lock()
	rem := r.removers[id]
	delete(r.removers, id)
	r.mu.Unlock()
	if rem != nil {
		rem.Remove()
	}
}

// bounded runs f and reports whether it returned within the stall time-out.
func bounded(f func()) bool {
	done := make(chan struct{})
	go func() { f(); close(done) }()
	select {
	case <-done:
		return true
	case <-time.After(stallTimeout()):
		return false
	}
}

func runC04(sc *c04Scenario) *Violation {
	r := &c04Run{inv: map[int]map[int]int{}, removers: map[int]client.Remover{}, armed: map[int]*c04Op{}, pinFail: map[int]bool{},
		fgSent: map[int]chan struct{}{}, bgSent: map[int]chan struct{}{}, kinds: map[int]bool{}, release: make(chan struct{})}
	r.tc = newTestClient(cliOpts{Flood: true, Configure: func(cfg *client.Config) {
		cfg.Recover = func(c *client.Conn, l *client.Line) {
			if e := recover(); e != nil {
				r.mu.Lock()
				r.panics = append(r.panics, fmt.Sprintf("%v on %s", e, l.Raw))
				r.mu.Unlock()
			}
		}
	}})
	defer r.tc.shutdown()
	defer close(r.release)
	m := newC04Model()
	if sc.Blocker != "" {
		r.tc.C.HandleBG(sc.Blocker, c04Blocker{r})
	}
	for _, o := range sc.Ops[:sc.PreRegs] {
		r.register(o.ID, o.Kind, o.Name)
		m.hs[o.ID] = &c04H{id: o.ID, name: strings.ToLower(o.Name), bg: o.Kind == "bg", alive: true}
	}
	// sentinels on every name
	for _, nm := range []string{"eva", "evb", "evc", "ping", "evother", "quiz", "abcdefghijklmnopqrstuvwxyz"} {
		r.tc.C.HandleFunc(nm, func(c *client.Conn, l *client.Line) {
			r.mu.Lock()
			ch := r.fgSent[r.eventNo(l)]
			r.mu.Unlock()
			if ch != nil {
				close(ch)
			}
		})
		r.tc.C.HandleBG(nm, client.HandlerFunc(func(c *client.Conn, l *client.Line) {
			r.mu.Lock()
			ch := r.bgSent[r.eventNo(l)]
			r.mu.Unlock()
			if ch != nil {
				close(ch)
			}
		}))
	}
	if err := r.tc.connect(); err != nil {
		return violationf("C04", "connect: %v", err)
	}
	evNo := 0
	doEvent := func(name string, maybe map[int]bool, concurrent func()) *Violation {
		evNo++
		ev := evNo
		fgWant, bgWant := m.expected(name)
		r.mu.Lock()
		r.fgSent[ev], r.bgSent[ev] = make(chan struct{}), make(chan struct{})
		fgS, bgS := r.fgSent[ev], r.bgSent[ev]
		r.mu.Unlock()
		line := fmt.Sprintf(":s!u@h %s tgt :%d", name, ev)
		if strings.EqualFold(name, "PING") {
			line = fmt.Sprintf("%s :%d", name, ev)
		}
		var wg sync.WaitGroup
		if concurrent != nil {
			wg.Add(1)
			go func() { defer wg.Done(); concurrent() }()
		}
		r.tc.conn().SendLine(line)
		fail := func(what string) *Violation {
			_, dump := goircGoroutines()
			return &Violation{Property: "C04", Msg: fmt.Sprintf("event %d (%s): %s", ev, name, what), Detail: dump}
		}
		// no marker line is sent between events (consecutive events of one name must work too): the
		// permanently registered sentinels tell us that both dispatches have started ...
		select {
		case <-fgS:
		case <-time.After(stallTimeout()):
			return fail("the permanently registered foreground sentinel was not invoked (or the event loop is dead-locked)")
		}
		select {
		case <-bgS:
		case <-time.After(stallTimeout()):
			return fail("the permanently registered background sentinel was not invoked")
		}
		wg.Wait()
		// ... and the goroutine dump that they have finished (a deliberately blocked background handler
		// keeps its own goroutine and its dispatch goroutine alive)
		if !waitCond(stallTimeout(), func() bool { return r.settled() }) {
			return fail("handler dispatch did not finish (dead-lock while registering/removing from a handler?)")
		}
		r.mu.Lock()
		got := r.inv[ev]
		pf := map[int]bool{}
		for k, v := range r.pinFail {
			pf[k] = v
		}
		r.mu.Unlock()
		want := map[int]bool{}
		for _, id := range append(fgWant, bgWant...) {
			want[id] = true
		}
		for id := range want {
			if maybe[id] {
				continue
			}
			if got[id] != 1 {
				return fail(fmt.Sprintf("handler %d registered for %q ran %d times, want exactly once (expected fg=%v bg=%v, got %v)", id, strings.ToLower(name), got[id], fgWant, bgWant, got))
			}
		}
		for id, n := range got {
			if want[id] || maybe[id] {
				if n > 1 {
					return fail(fmt.Sprintf("handler %d ran %d times for one event", id, n))
				}
				continue
			}
			h := m.hs[id]
			why := "never registered"
			if h != nil {
				why = fmt.Sprintf("registered for %q, alive=%v", h.name, h.alive)
			}
			return fail(fmt.Sprintf("handler %d ran although it should not (%s); expected fg=%v bg=%v", id, why, fgWant, bgWant))
		}
		m.afterEvent(name, pf)
		if len(pf) > 0 {
			// an in-handler script could not be pinned: its effect is undetermined, stop comparing
			return &Violation{Property: "C04", Key: "unpinned", Msg: "unpinned"}
		}
		return nil
	}
	for oi, o := range sc.Ops[sc.PreRegs:] {
		switch o.Op {
		case "track":
			if r.tc.C.StateTracker() != nil {
				r.tc.C.DisableStateTracking()
			} else {
				r.tc.C.EnableStateTracking()
			}
		case "reg":
			if !bounded(func() { r.register(o.ID, o.Kind, o.Name) }) {
				_, dump := goircGoroutines()
				return &Violation{Property: "C04", Msg: fmt.Sprintf("op %d: registering a handler for %q never returned (the handler set is dead-locked)", oi, o.Name), Detail: dump}
			}
			m.hs[o.ID] = &c04H{id: o.ID, name: strings.ToLower(o.Name), bg: o.Kind == "bg", alive: true}
		case "remove":
			if !bounded(func() { r.remove(o.ID) }) {
				_, dump := goircGoroutines()
				return &Violation{Property: "C04", Msg: fmt.Sprintf("op %d: Remove() never returned (the handler set is dead-locked)", oi), Detail: dump}
			}
			m.hs[o.ID].alive = false
		case "arm":
			oc := o
			m.hs[o.ID].armed = &oc
			r.mu.Lock()
			r.armed[o.ID] = &oc
			r.mu.Unlock()
		case "event":
			if v := doEvent(o.Name, nil, nil); v != nil {
				if v.Key == "unpinned" {
					return nil
				}
				return v
			}
		case "race":
			oc := o
			var v *Violation
			switch o.Script {
			case "reg", "reg-other":
				nm := o.Name
				if o.Script == "reg-other" {
					nm = "EvOther"
				}
				v = doEvent(o.Name, map[int]bool{o.ID: true}, func() {
					for i := 0; i < oc.Yields; i++ {
						runtime.Gosched()
					}
					r.register(oc.ID, oc.Kind, nm)
				})
				m.hs[o.ID] = &c04H{id: o.ID, name: strings.ToLower(nm), bg: o.Kind == "bg", alive: true}
			case "remove":
				v = doEvent(o.Name, map[int]bool{o.ID: true}, func() {
					for i := 0; i < oc.Yields; i++ {
						runtime.Gosched()
					}
					r.remove(oc.ID)
				})
				m.hs[o.ID].alive = false
			}
			if v != nil {
				if v.Key == "unpinned" {
					return nil
				}
				return v
			}
		}
	}
	if sc.Solo != "" {
		if v := runC04Solo(r, sc.Solo, sc.SoloCase); v != nil {
			return v
		}
	}
	r.mu.Lock()
	defer r.mu.Unlock()
	if len(r.panics) > 0 {
		return violationf("C04", "a handler panicked during registration/removal from inside handlers: %v", r.panics)
	}
	return nil
}

// runC04Solo: the only handler registered under a name removes itself, or registers a second
// handler under the same name, from inside its own invocation. The event must complete (no
// dead-lock), and the following event must invoke exactly the handlers then registered.
func runC04Solo(r *c04Run, solo string, letterCase int) *Violation {
	bg := strings.HasPrefix(solo, "bg:")
	script := solo[3:]
	name := "EVSOLO"
	regName := []string{"EVSOLO", "evsolo", "EvSolo"}[letterCase%3] // event names are case-insensitive
	var mu sync.Mutex
	counts := map[string]int{}
	var rem client.Remover
	reg := func(key string, f func(c *client.Conn, l *client.Line)) client.Remover {
		h := client.HandlerFunc(func(c *client.Conn, l *client.Line) {
			if l.Text() == "0" {
				return // the registration overtook the unobserved first event: not counted
			}
			mu.Lock()
			counts[key]++
			mu.Unlock()
			if f != nil {
				f(c, l)
			}
		})
		if bg {
			return r.tc.C.HandleBG(regName, h)
		}
		return r.tc.C.HandleFunc(regName, h)
	}
	// an event of this name while nothing at all is registered under it, directly followed (no other
	// verb in between) by the registration and the next event of the same name
	r.tc.conn().SendLine(fmt.Sprintf(":s!u@h %s tgt :0", name))
	waitCond(50*time.Millisecond, func() bool { return r.tc.conn().Pending() == 0 })
	time.Sleep(300 * time.Microsecond)
	armed := true
	regFirst := func(f func(c *client.Conn, l *client.Line)) bool {
		return bounded(func() { rem = reg("first", f) })
	}
	if !regFirst(func(c *client.Conn, l *client.Line) {
		if l.Text() == "0" {
			return // the registration overtook the unobserved first event: not counted
		}
		mu.Lock()
		a := armed
		armed = false
		mu.Unlock()
		if !a {
			return
		}
		if script == "selfremove" {
			rem.Remove()
		} else {
			reg("second", nil)
		}
	}) {
		_, dump := goircGoroutines()
		return &Violation{Property: "C04", Msg: fmt.Sprintf("single handler under a name (%s): registering it never returned (the handler set is dead-locked)", solo), Detail: dump}
	}
	fail := func(what string) *Violation {
		_, dump := goircGoroutines()
		return &Violation{Property: "C04", Msg: fmt.Sprintf("single handler under a name (%s): %s", solo, what), Detail: dump}
	}
	for round := 1; round <= 2; round++ {
		r.tc.conn().SendLine(fmt.Sprintf(":s!u@h %s tgt :%d", name, round))
		if round == 1 && !r.tc.syncIn(stallTimeout()) {
			return fail(fmt.Sprintf("event %d never completed (dead-lock while the only handler of the name changed the handler set)", round))
		}
		want := map[string]int{"first": 1}
		if round == 2 {
			if script == "selfremove" {
				want = map[string]int{"first": 1}
			} else {
				want = map[string]int{"first": 2, "second": 1}
			}
		}
		ok := waitCond(stallTimeout(), func() bool {
			mu.Lock()
			defer mu.Unlock()
			return counts["first"] >= want["first"] && counts["second"] >= want["second"] && r.settled()
		})
		mu.Lock()
		got := fmt.Sprint(counts)
		exact := counts["first"] == want["first"] && counts["second"] == want["second"]
		mu.Unlock()
		if !ok || !exact {
			return fail(fmt.Sprintf("after event %d the handlers ran %s, want %v", round, got, want))
		}
	}
	return nil
}

func (sc *c04Scenario) classes() (cls []string, nontrivial bool) {
	removed := false
	for _, o := range sc.Ops {
		switch o.Op {
		case "remove":
			removed = true
			cls = append(cls, "remove")
		case "arm":
			cls = append(cls, "inhandler:"+o.Script)
			nontrivial = true
		case "race":
			cls = append(cls, "race:"+o.Script)
		case "event":
			if removed {
				nontrivial = true
			}
		case "reg":
			if o.Name != strings.ToUpper(o.Name) {
				cls = append(cls, "reg_case_variant")
				nontrivial = true
			}
		}
	}
	if sc.Solo != "" {
		cls = append(cls, "solo="+sc.Solo)
		nontrivial = true
	}
	return uniqStrings(cls), nontrivial
}

func TestC04(t *testing.T) {
	col := evid.New("C04", "histories of 5..40 steps over Handle / HandleFunc / HandleBG / Remove / event / in-handler self-removal, removal of another handler, registration / register or remove racing with an event, on 4 names in 3 letter cases; multiset model of both handler sets; non-trivial = an event after a removal, an in-handler mutation, or a case-variant registration; distinct by history")
	defer finish(t, col)
	rapid.Check(t, func(t *rapid.T) {
		sc := genC04(t)
		v := runC04(sc)
		cls, nt := sc.classes()
		b, _ := json.Marshal(sc)
		col.Case(string(b), nt, cls...)
		if len(sc.Ops) <= 12 {
			col.Sample(sc)
		}
		if v != nil {
			failRapid(t, "TestC04", v, sc)
		}
	})
}

func TestC04_Replay(t *testing.T) {
	var sc c04Scenario
	loadReplay(t, &sc)
	n := envInt("VERIF_REPLAY_RUNS", 50)
	for i := 0; i < n; i++ {
		if v := runC04(&sc); v != nil {
			t.Fatalf("REPRODUCED (run %d of %d): %s", i+1, n, v.Msg)
		}
	}
}

package props

import (
	"context"
	"encoding/json"
	"fmt"
	"strings"
	"testing"
	"time"

	"verifharness/evid"
	"verifharness/ircsim"

	"github.com/fluffle/goirc/client"
	"github.com/fluffle/goirc/logging"
	"pgregory.net/rapid"
)

// ---------------------------------------------------------------------------
// C20: the connection password never reaches the log
// ---------------------------------------------------------------------------

type c20Scenario struct {
	Pass      Q      `json:"pass"`
	CapNeg    bool   `json:"capneg"`
	Tracking  bool   `json:"tracking"`
	ViaTo     bool   `json:"via_connect_to"`
	Failure   string `json:"failure"` // none, dial, write_at_pass, eof_after_pass, refusal
	Reconnect int    `json:"reconnects"`
	Traffic   int    `json:"traffic"`
	// Wipe: an application REGISTER handler clears ("clear") or replaces ("change") Config().Pass as soon as
	// registration has begun, while the server is slow to read, so the PASS line is still in flight
	Wipe string `json:"wipe"`
}

const c20Mask = "PASS **************"

func genC20(t *rapid.T) *c20Scenario {
	nonce := fmt.Sprintf("%06x", rapid.IntRange(0, 0xffffff).Draw(t, "nonce"))
	units := []string{"a", "Z", "0", " ", ":", "%s", "%d", "%v", "%", "*", "**", "!", "~", "\\", "\"", "'", "PASS", "pw", "-", "_", "@", "#"}
	pre := genUnits(t, "pw_pre", units, 0, 8)
	post := genUnits(t, "pw_post", units, 0, 8)
	if rapid.IntRange(0, 9).Draw(t, "pw_long") == 0 {
		post += strings.Repeat("x", rapid.IntRange(20, 40).Draw(t, "pw_pad"))
	}
	sc := &c20Scenario{
		Pass:      Q(pre + nonce + post),
		CapNeg:    rapid.Bool().Draw(t, "capneg"),
		Tracking:  rapid.Bool().Draw(t, "tracking"),
		ViaTo:     rapid.Bool().Draw(t, "via_to"),
		Failure:   rapid.SampledFrom([]string{"none", "none", "dial", "write_at_pass", "eof_after_pass", "refusal", "eof_at_connect", "eof_at_connect", "deadline"}).Draw(t, "failure"),
		Reconnect: rapid.IntRange(0, 2).Draw(t, "reconnects"),
		Traffic:   rapid.IntRange(0, 6).Draw(t, "traffic"),
		Wipe:      rapid.SampledFrom([]string{"", "", "clear", "change"}).Draw(t, "wipe"),
	}
	return sc
}

var c20Log = &capLogger{}
var c20NotHeld int

// c20Session runs the scenario with the given password ("" = control run)
// and returns the log records plus the number of PASS lines that reached the wire.
func c20Session(sc *c20Scenario, pass string) (recs []logRec, passOnWire int, v *Violation) {
	logging.SetLogger(c20Log)
	defer logging.SetLogger(nil)
	c20Log.take()
	tc := newTestClient(cliOpts{Flood: true, Tracking: sc.Tracking, Server: "irc.example.net", Configure: func(cfg *client.Config) {
		cfg.EnableCapabilityNegotiation = sc.CapNeg
		if !sc.ViaTo {
			cfg.Pass = pass
		}
	}})
	defer tc.shutdown()
	disc := make(chan struct{}, 8)
	tc.C.HandleFunc(client.DISCONNECTED, func(*client.Conn, *client.Line) { disc <- struct{}{} })
	if sc.Wipe != "" {
		tc.C.HandleFunc(client.REGISTER, func(c *client.Conn, _ *client.Line) {
			if sc.Wipe == "clear" {
				c.Config().Pass = ""
			} else {
				c.Config().Pass = "next-servers-password"
			}
		})
	}
	for cycle := 0; cycle <= sc.Reconnect; cycle++ {
		if sc.Wipe != "" && !sc.ViaTo {
			tc.C.Config().Pass = pass // (the handler above wiped it during the previous registration)
		}
		passIdx := 1 // PASS is the first line written ...
		if sc.CapNeg {
			passIdx = 2 // ... or the second, after CAP LS
		}
		switch sc.Failure {
		case "dial":
			tc.S.FailDials(ircsim.ErrDial)
		case "write_at_pass":
			tc.S.Prepare(func(c *ircsim.Conn) { c.FailWriteAt(passIdx) })
		case "eof_at_connect":
			// the server hangs up the moment it has accepted: the teardown races with registration
			tc.S.Prepare(func(c *ircsim.Conn) { c.EOF() })
		default:
			if sc.Wipe != "" {
				// a server that is slow to read: nothing is written until Connect has returned
				tc.S.Prepare(func(c *ircsim.Conn) { c.Gate(true) })
			}
		}
		var err error
		if sc.Failure == "deadline" {
			// the connect context carries a deadline that passes while the server has not yet read anything:
			// the connection is up, registration is queued, and the client gives it up
			tc.S.Prepare(func(c *ircsim.Conn) { c.Gate(true) })
			ctx, cancel := context.WithTimeout(context.Background(), 15*time.Millisecond)
			defer cancel()
			if sc.ViaTo && pass != "" {
				err = tc.C.ConnectToContext(ctx, "irc.example.net", pass)
			} else {
				err = tc.C.ConnectContext(ctx)
			}
			if err == nil {
				select {
				case <-disc:
				case <-time.After(stallTimeout()):
					return nil, 0, violationf("C20", "no DISCONNECTED after the connect context's deadline passed")
				}
			}
			tc.S.Prepare(nil)
			continue
		}
		if sc.ViaTo && pass != "" {
			err = tc.C.ConnectTo("irc.example.net", pass)
		} else if sc.ViaTo {
			err = tc.C.ConnectTo("irc.example.net")
		} else {
			err = tc.C.Connect()
		}
		if sc.Failure == "dial" {
			if err == nil {
				return nil, 0, violationf("C20", "Connect succeeded on a failing dial")
			}
			continue
		}
		if err != nil {
			return nil, 0, violationf("C20", "Connect: %v", err)
		}
		conn := tc.conn()
		conn.Gate(false)
		switch sc.Failure {
		case "write_at_pass", "eof_at_connect":
			// the connection dies on the injected fault
			select {
			case <-disc:
			case <-time.After(stallTimeout()):
				return nil, 0, violationf("C20", "no DISCONNECTED after a write error")
			}
		case "eof_after_pass":
			conn.WaitWritten(func(w string) bool { return strings.Contains(w, "USER ") }, stallTimeout())
			conn.EOF()
			select {
			case <-disc:
			case <-time.After(stallTimeout()):
				return nil, 0, violationf("C20", "no DISCONNECTED after EOF")
			}
		default:
			if sc.Failure == "refusal" {
				conn.SendLine(":irc.server 464 * :Password incorrect")
				conn.SendLine("ERROR :Closing Link: [Bad Password]")
			} else {
				conn.SendLine(":irc.server 001 me :Welcome me!ident@host")
			}
			for i := 0; i < sc.Traffic; i++ {
				conn.SendLine(fmt.Sprintf(":a!b@c PRIVMSG me :traffic %d", i))
				tc.C.Privmsg("a", fmt.Sprintf("reply %d", i))
			}
			if !tc.syncOut(stallTimeout()) {
				return nil, 0, violationf("C20", "final PING never answered")
			}
			go tc.C.Close()
			select {
			case <-disc:
			case <-time.After(stallTimeout()):
				return nil, 0, violationf("C20", "no DISCONNECTED after Close")
			}
		}
		for _, l := range strings.Split(conn.Written(), "\r\n") {
			if pass != "" && l == "PASS "+pass {
				passOnWire++
			}
		}
		waitCond(stallTimeout(), func() bool { n, _ := goircGoroutines(); return n == 0 })
	}
	return c20Log.take(), passOnWire, nil
}

func recContains(r logRec, needle string) bool {
	if strings.Contains(r.Text, needle) || strings.Contains(r.Format, needle) {
		return true
	}
	for _, a := range r.Args {
		if strings.Contains(fmt.Sprint(a), needle) {
			return true
		}
	}
	return false
}

func runC20(sc *c20Scenario) (admitted bool, v *Violation) {
	pass := string(sc.Pass)
	control, _, v := c20Session(sc, "")
	if v != nil {
		return false, v
	}
	// the password is admitted only if no record of the password-less run (nor the mask) contains it
	if strings.Contains(c20Mask, pass) {
		return false, nil
	}
	for _, r := range control {
		if recContains(r, pass) {
			return false, nil
		}
	}
	recs, onWire, v := c20Session(sc, pass)
	if v != nil {
		return true, v
	}
	masked := 0
	for _, r := range recs {
		if recContains(r, pass) {
			return true, violationf("C20", "log record at level %s contains the password %q: format %q text %q", r.Level, pass, r.Format, tail(r.Text, 200))
		}
		if r.Level == "debug" && strings.HasPrefix(r.Text, "-> PASS") {
			if r.Text != "-> "+c20Mask {
				return true, violationf("C20", "PASS line logged in a form other than the mask: %q", r.Text)
			}
			masked++
		}
	}
	if masked != onWire {
		return true, violationf("C20", "%d PASS lines reached the wire but %d masked records were logged", onWire, masked)
	}
	if sc.Failure == "none" && onWire != sc.Reconnect+1 {
		return true, violationf("C20", "harness: expected %d PASS lines on the wire, saw %d", sc.Reconnect+1, onWire)
	}
	return true, nil
}

func TestC20(t *testing.T) {
	col := evid.New("C20", "passwords of printable bytes (spaces, colons, %-verbs, '*', the word PASS) embedding a 6-hex nonce; capability negotiation / tracking / Config.Pass vs ConnectTo(host, pass); normal sessions with traffic and failing ones (dial error, write error exactly at the PASS line, EOF right after registration, 464 refusal); 0..2 reconnects; every record handed to a capturing logger is searched (format, formatted text, each argument) and compared with a password-less control run; non-trivial = the PASS line was written or attempted; distinct by scenario")
	defer finish(t, col)
	rapid.Check(t, func(t *rapid.T) {
		sc := genC20(t)
		admitted, v := runC20(sc)
		b, _ := json.Marshal(sc)
		cls := []string{"failure=" + sc.Failure, fmt.Sprintf("capneg=%v", sc.CapNeg), fmt.Sprintf("via_connect_to=%v", sc.ViaTo)}
		if !admitted {
			cls = append(cls, "password_not_admitted")
		}
		col.Case(string(b), admitted && sc.Failure != "dial", cls...)
		col.Sample(sc)
		if v != nil {
			failRapid(t, "TestC20", v, sc)
		}
	})
}

func TestC20_Replay(t *testing.T) {
	var sc c20Scenario
	loadReplay(t, &sc)
	if _, v := runC20(&sc); v != nil {
		t.Fatalf("REPRODUCED %s", v.Msg)
	}
}

// ---------------------------------------------------------------------------
// C20 with flood control on: the PASS line itself is held back on a reconnect
// (the penalty survives the disconnect). Scenarios only sleep, so a batch runs
// concurrently against the one package-global logger; every password carries
// its own nonce, so a hit in the merged log is attributable.
// ---------------------------------------------------------------------------

type c20RL struct {
	Pass    Q    `json:"pass"`
	CapNeg  bool `json:"capneg"`
	Replies int  `json:"replies"`
}

func runC20RLBatch(batch []*c20RL) *Violation {
	logging.SetLogger(c20Log)
	defer logging.SetLogger(nil)
	c20Log.take()
	type res struct {
		onWire int
		v      *Violation
	}
	out := make(chan res, len(batch))
	for _, sc := range batch {
		sc := sc
		go func() {
			r := res{}
			defer func() { out <- r }()
			tc := newTestClient(cliOpts{Flood: false, Server: "irc.example.net", Configure: func(cfg *client.Config) {
				cfg.EnableCapabilityNegotiation = sc.CapNeg
				cfg.Pass = string(sc.Pass)
			}})
			defer tc.shutdown()
			disc := make(chan struct{}, 4)
			tc.C.HandleFunc(client.DISCONNECTED, func(*client.Conn, *client.Line) { disc <- struct{}{} })
			for cycle := 0; cycle < 2; cycle++ {
				if err := tc.C.Connect(); err != nil {
					r.v = violationf("C20", "rate-limited: Connect: %v", err)
					return
				}
				conn := tc.conn()
				if !conn.WaitWritten(func(w string) bool { return strings.Contains(w, "USER ") }, 60*time.Second) {
					r.v = violationf("C20", "rate-limited: registration not written within 60 s (cycle %d)", cycle)
					return
				}
				if cycle == 0 {
					for i := 0; i < sc.Replies; i++ {
						tc.C.Privmsg("#chan", strings.Repeat("x", 100))
					}
					want := sc.Replies
					if !conn.WaitWritten(func(w string) bool { return strings.Count(w, "PRIVMSG #chan") >= want }, 60*time.Second) {
						r.v = violationf("C20", "rate-limited: replies not written within 60 s")
						return
					}
				}
				r.onWire += strings.Count(conn.Written(), "PASS "+string(sc.Pass)+"\r\n")
				go tc.C.Close()
				select {
				case <-disc:
				case <-time.After(stallTimeout()):
					r.v = violationf("C20", "rate-limited: no DISCONNECTED")
					return
				}
				waitCond(stallTimeout(), func() bool { n, _, _ := connGoroutines(tc.C); return n == 0 })
			}
		}()
	}
	total := 0
	for range batch {
		r := <-out
		if r.v != nil {
			return r.v
		}
		total += r.onWire
	}
	recs := c20Log.take()
	masked, held := 0, 0
	for _, r := range recs {
		for _, sc := range batch {
			if recContains(r, string(sc.Pass)) {
				return violationf("C20", "flood control on, reconnect: log record at level %s contains the password %q: format %q text %q", r.Level, sc.Pass, r.Format, tail(r.Text, 200))
			}
		}
		if r.Level == "debug" && r.Text == "-> "+c20Mask {
			masked++
		}
		if strings.Contains(r.Format, "Flood!") {
			held++
		}
	}
	if masked != total {
		return violationf("C20", "rate-limited batch: %d PASS lines on the wire, %d masked records", total, masked)
	}
	if held == 0 {
		// the scenario did not reach what it was built for (flood control never held a line back, e.g.
		// because the penalty does not survive a reconnect in the tree under test - C10's subject, not C20's)
		c20NotHeld++
	}
	return nil
}

func TestC20_RateLimited(t *testing.T) {
	col := evid.New("C20", "flood control on: connect, send a few 100-byte messages, disconnect, reconnect at once so that the second connection's PASS is itself rate-limited; batches of 8 scenarios run concurrently; non-trivial = every scenario; distinct by password")
	defer finish(t, col)
	rapid.Check(t, func(t *rapid.T) {
		var batch []*c20RL
		for i := 0; i < 8; i++ {
			nonce := fmt.Sprintf("%06x", rapid.IntRange(0x100000, 0xffffff).Draw(t, "nonce"))
			pw := genUnits(t, "pw_pre", []string{"a", " ", ":", "%s", "*", "PASS", "-"}, 0, 4) + nonce + fmt.Sprint(i) + genUnits(t, "pw_post", []string{"z", " ", "%d", "!"}, 0, 4)
			batch = append(batch, &c20RL{Pass: Q(pw), CapNeg: rapid.Bool().Draw(t, "capneg"), Replies: rapid.IntRange(1, 3).Draw(t, "replies")})
		}
		v := runC20RLBatch(batch)
		col.Set("batches_where_no_line_was_held_back", int64(c20NotHeld))
		for _, sc := range batch {
			col.Case(string(sc.Pass), true, "rate_limited_reconnect")
			col.Sample(sc)
		}
		if v != nil {
			failRapid(t, "TestC20_RateLimited", v, batch)
		}
	})
}

func TestC20_RateLimited_Replay(t *testing.T) {
	var batch []*c20RL
	loadReplay(t, &batch)
	if v := runC20RLBatch(batch); v != nil {
		t.Fatalf("REPRODUCED %s", v.Msg)
	}
}

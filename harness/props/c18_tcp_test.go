package props

import (
	"bufio"
	"crypto/ecdsa"
	"crypto/elliptic"
	"crypto/rand"
	"crypto/tls"
	"crypto/x509"
	"crypto/x509/pkix"
	"encoding/json"
	"fmt"
	"math/big"
	"net"
	"strings"
	"sync"
	"testing"
	"time"

	"verifharness/evid"

	"github.com/fluffle/goirc/client"
	"pgregory.net/rapid"
)

// ---------------------------------------------------------------------------
// C18 over real loopback sockets: the direct (non-proxy) dial path, the default
// ports 6667 / 6697 as actually reached, and a real TLS session.
// ---------------------------------------------------------------------------

type tcpServer struct {
	ln    net.Listener
	mu    sync.Mutex
	lines []string
	conns []net.Conn
	ready chan struct{}
}

func newTCPServer(addr string, tlsCfg *tls.Config) (*tcpServer, error) {
	var ln net.Listener
	var err error
	if tlsCfg != nil {
		ln, err = tls.Listen("tcp", addr, tlsCfg)
	} else {
		ln, err = net.Listen("tcp", addr)
	}
	if err != nil {
		return nil, err
	}
	s := &tcpServer{ln: ln, ready: make(chan struct{}, 8)}
	go func() {
		for {
			c, err := ln.Accept()
			if err != nil {
				return
			}
			s.mu.Lock()
			s.conns = append(s.conns, c)
			s.mu.Unlock()
			go func() {
				r := bufio.NewReader(c)
				for {
					l, err := r.ReadString('\n')
					if err != nil {
						return
					}
					l = strings.TrimRight(l, "\r\n")
					s.mu.Lock()
					s.lines = append(s.lines, l)
					s.mu.Unlock()
					if strings.HasPrefix(l, "USER ") {
						s.ready <- struct{}{}
					}
				}
			}()
		}
	}()
	return s, nil
}

func (s *tcpServer) close() {
	s.ln.Close()
	s.mu.Lock()
	for _, c := range s.conns {
		c.Close()
	}
	s.mu.Unlock()
}

func (s *tcpServer) send(l string) {
	s.mu.Lock()
	defer s.mu.Unlock()
	if len(s.conns) > 0 {
		s.conns[len(s.conns)-1].Write([]byte(l + "\r\n"))
	}
}

func (s *tcpServer) snapshot() []string {
	s.mu.Lock()
	defer s.mu.Unlock()
	return append([]string(nil), s.lines...)
}

func (s *tcpServer) waitLine(pred func(string) bool, d time.Duration) bool {
	return waitCond(d, func() bool {
		for _, l := range s.snapshot() {
			if pred(l) {
				return true
			}
		}
		return false
	})
}

var selfSigned = sync.OnceValues(func() (tls.Certificate, error) {
	key, err := ecdsa.GenerateKey(elliptic.P256(), rand.Reader)
	if err != nil {
		return tls.Certificate{}, err
	}
	tmpl := &x509.Certificate{SerialNumber: big.NewInt(1), Subject: pkix.Name{CommonName: "verif"}, NotBefore: time.Now().Add(-time.Hour), NotAfter: time.Now().Add(24 * time.Hour),
		KeyUsage: x509.KeyUsageDigitalSignature, ExtKeyUsage: []x509.ExtKeyUsage{x509.ExtKeyUsageServerAuth}, IPAddresses: []net.IP{net.ParseIP("127.0.0.1")}}
	der, err := x509.CreateCertificate(rand.Reader, tmpl, tmpl, &key.PublicKey, key)
	if err != nil {
		return tls.Certificate{}, err
	}
	return tls.Certificate{Certificate: [][]byte{der}, PrivateKey: key}, nil
})

type c18TCP struct {
	SSL         bool   `json:"ssl"`
	DefaultPort bool   `json:"default_port"` // Server is given without a port: 6667 / 6697 must be reached
	Pass        string `json:"pass"`
	CapNeg      bool   `json:"capneg"`
	Token       string `json:"token"`
}

// runC18TCP returns skipped=true when the default port cannot be bound in this environment.
func runC18TCP(sc *c18TCP) (skipped bool, v *Violation) {
	var tlsCfg *tls.Config
	if sc.SSL {
		cert, err := selfSigned()
		if err != nil {
			return true, nil
		}
		tlsCfg = &tls.Config{Certificates: []tls.Certificate{cert}}
	}
	addr := "127.0.0.1:0"
	if sc.DefaultPort {
		addr = "127.0.0.1:6667"
		if sc.SSL {
			addr = "127.0.0.1:6697"
		}
	}
	srv, err := newTCPServer(addr, tlsCfg)
	if err != nil {
		return true, nil // port not available here: counted, never failed
	}
	defer srv.close()
	cfg := client.NewConfig("me", "ident", "Real Name")
	cfg.Flood, cfg.PingFreq = true, 0
	cfg.Pass, cfg.EnableCapabilityNegotiation = sc.Pass, sc.CapNeg
	cfg.SSL = sc.SSL
	cfg.SSLConfig = &tls.Config{InsecureSkipVerify: true}
	cfg.Server = "127.0.0.1"
	if !sc.DefaultPort {
		cfg.Server = srv.ln.Addr().String()
	}
	c := client.Client(cfg)
	disc := make(chan struct{}, 2)
	c.HandleFunc(client.DISCONNECTED, func(*client.Conn, *client.Line) { disc <- struct{}{} })
	if err := c.Connect(); err != nil {
		return false, violationf("C18", "loopback %+v: Connect: %v", *sc, err)
	}
	defer func() {
		go c.Close()
		select {
		case <-disc:
		case <-time.After(stallTimeout()):
		}
	}()
	select {
	case <-srv.ready:
	case <-time.After(stallTimeout()):
		return false, violationf("C18", "loopback %+v: registration never arrived at %s; got %q", *sc, addr, srv.snapshot())
	}
	var want []string
	if sc.CapNeg {
		want = append(want, "CAP LS")
	}
	if sc.Pass != "" {
		want = append(want, "PASS "+sc.Pass)
	}
	want = append(want, "NICK me", "USER ident 12 * :Real Name")
	if got := srv.snapshot(); strings.Join(got, "\n") != strings.Join(want, "\n") {
		return false, violationf("C18", "loopback %+v: server received %q, want %q", *sc, got, want)
	}
	srv.send("PING :" + sc.Token)
	wantPong := "PONG :" + sc.Token
	if !srv.waitLine(func(l string) bool { return l == wantPong }, stallTimeout()) {
		return false, violationf("C18", "loopback %+v: PING :%s not answered with %q; got %q", *sc, sc.Token, wantPong, srv.snapshot())
	}
	return false, nil
}

func TestC18_TCP(t *testing.T) {
	col := evid.New("C18", "real loopback sockets without a proxy: plain TCP and a real TLS session (self-signed certificate, InsecureSkipVerify), Server given with an explicit port or without one (then a listener on 127.0.0.1:6667 / :6697 must be reached; skipped and counted if the port cannot be bound); registration prefix and one PING/PONG round trip checked at the server end; non-trivial = every executed case; distinct by scenario")
	defer finish(t, col)
	rapid.Check(t, func(t *rapid.T) {
		sc := &c18TCP{SSL: rapid.Bool().Draw(t, "ssl"), DefaultPort: rapid.Bool().Draw(t, "default_port"), CapNeg: rapid.Bool().Draw(t, "capneg"),
			Pass: rapid.SampledFrom([]string{"", "pw", "p w"}).Draw(t, "pass"), Token: rapid.SampledFrom([]string{"x", "a b", "irc.server", ":c"}).Draw(t, "token")}
		skipped, v := runC18TCP(sc)
		b, _ := json.Marshal(sc)
		cls := []string{fmt.Sprintf("tcp_ssl=%v", sc.SSL), fmt.Sprintf("tcp_default_port=%v", sc.DefaultPort)}
		if skipped {
			col.Class("tcp_skipped_port_unavailable", 1)
		} else {
			col.Case(string(b), true, cls...)
			col.Sample(sc)
		}
		if v != nil {
			failRapid(t, "TestC18_TCP", v, sc)
		}
	})
}

func TestC18_TCP_Replay(t *testing.T) {
	var sc c18TCP
	loadReplay(t, &sc)
	if _, v := runC18TCP(&sc); v != nil {
		t.Fatalf("REPRODUCED %s", v.Msg)
	}
}

// Package evid collects what a check actually explored and writes it out for
// the driver: case counts, the set of distinct non-trivial cases, a class
// histogram and samples.
package evid

import (
	"encoding/binary"
	"encoding/json"
	"hash/fnv"
	"os"
	"sort"
	"sync"
)

type Collector struct {
	mu         sync.Mutex
	Property   string
	Rule       string
	evals      int64
	hashes     map[uint64]struct{}
	classes    map[string]int64
	samples    []interface{}
	seen       int64
	maxSamples int
	extra      map[string]interface{}
	excluded   map[string]int64
	known      map[string]string // known-finding key -> what (still failing)
	distinctBC int64             // distinct non-trivial cases counted by construction (enumerations)
	notes      []string
}

func New(property, rule string) *Collector {
	return &Collector{
		Property: property, Rule: rule,
		hashes: map[uint64]struct{}{}, classes: map[string]int64{},
		maxSamples: 6, extra: map[string]interface{}{}, excluded: map[string]int64{},
		known: map[string]string{},
	}
}

func Hash(s string) uint64 {
	h := fnv.New64a()
	h.Write([]byte(s))
	return h.Sum64()
}

// Case records one executed case. key is the canonical form used for
// distinctness; nontrivial says whether the stated rule holds for it.
func (c *Collector) Case(key string, nontrivial bool, classes ...string) {
	c.mu.Lock()
	c.evals++
	if nontrivial {
		c.hashes[Hash(key)] = struct{}{}
	}
	for _, cl := range classes {
		c.classes[cl]++
	}
	c.mu.Unlock()
}

// Class bumps a histogram bucket without counting a case.
func (c *Collector) Class(cl string, n int64) {
	c.mu.Lock()
	c.classes[cl] += n
	c.mu.Unlock()
}

// Sample offers a case for the sample list: the first few are always kept,
// later ones replace earlier ones at exponentially spaced positions (a
// deterministic stand-in for reservoir sampling: no RNG of our own).
func (c *Collector) Sample(v interface{}) {
	c.mu.Lock()
	defer c.mu.Unlock()
	c.seen++
	if len(c.samples) < c.maxSamples {
		c.samples = append(c.samples, v)
		return
	}
	// keep first half fixed; rotate second half at powers of two
	if c.seen&(c.seen-1) == 0 {
		half := c.maxSamples / 2
		idx := half + int(c.seen>>1)%(c.maxSamples-half)
		c.samples[idx] = v
	}
}

// Enumerated records n executed cases of an enumeration whose members are
// pairwise distinct by construction, nontrivial of which satisfy the rule.
func (c *Collector) Enumerated(n, nontrivial int64) {
	c.mu.Lock()
	c.evals += n
	c.distinctBC += nontrivial
	c.mu.Unlock()
}

func (c *Collector) Excluded(key string) {
	c.mu.Lock()
	c.excluded[key]++
	c.mu.Unlock()
}

func (c *Collector) KnownFinding(key, what string) {
	c.mu.Lock()
	c.known[key] = what
	c.mu.Unlock()
}

func (c *Collector) Set(k string, v interface{}) {
	c.mu.Lock()
	c.extra[k] = v
	c.mu.Unlock()
}

func (c *Collector) Add(k string, n int64) {
	c.mu.Lock()
	if old, ok := c.extra[k].(int64); ok {
		c.extra[k] = old + n
	} else {
		c.extra[k] = n
	}
	c.mu.Unlock()
}

func (c *Collector) Note(s string) {
	c.mu.Lock()
	c.notes = append(c.notes, s)
	c.mu.Unlock()
}

func (c *Collector) Evals() int64 {
	c.mu.Lock()
	defer c.mu.Unlock()
	return c.evals
}

type fileFormat struct {
	Property   string                 `json:"property"`
	Rule       string                 `json:"rule"`
	Evals      int64                  `json:"evaluations"`
	Nontrivial int                    `json:"distinct_nontrivial"`
	Classes    map[string]int64       `json:"classes"`
	Samples    []interface{}          `json:"samples"`
	Extra      map[string]interface{} `json:"extra"`
	Excluded   map[string]int64       `json:"excluded"`
	Known      map[string]string      `json:"known_findings_hit"`
	Notes      []string               `json:"notes"`
	HashFile   string                 `json:"hash_file"`
	DistinctBC int64                  `json:"distinct_by_construction"`
}

// Write stores the stats at path (JSON) and the hash set at path+".hashes"
// (little-endian uint64s) so that shards can be merged exactly.
func (c *Collector) Write(path string) error {
	c.mu.Lock()
	defer c.mu.Unlock()
	hs := make([]uint64, 0, len(c.hashes))
	for h := range c.hashes {
		hs = append(hs, h)
	}
	sort.Slice(hs, func(i, j int) bool { return hs[i] < hs[j] })
	buf := make([]byte, 8*len(hs))
	for i, h := range hs {
		binary.LittleEndian.PutUint64(buf[8*i:], h)
	}
	if err := os.WriteFile(path+".hashes", buf, 0o644); err != nil {
		return err
	}
	ff := fileFormat{
		Property: c.Property, Rule: c.Rule, Evals: c.evals, Nontrivial: len(hs) + int(c.distinctBC),
		Classes: c.classes, Samples: c.samples, Extra: c.extra, Excluded: c.excluded,
		Known: c.known, Notes: c.notes, HashFile: path + ".hashes", DistinctBC: c.distinctBC,
	}
	if ff.Samples == nil {
		ff.Samples = []interface{}{}
	}
	b, err := json.MarshalIndent(ff, "", " ")
	if err != nil {
		return err
	}
	return os.WriteFile(path, b, 0o644)
}

#!/usr/bin/env python3-vt
"""Validates /verif/evidence/*.json against the evidence schema and MANIFEST.json against its schema."""
import json, glob, os, sys
import jsonschema
VERIF = os.path.dirname(os.path.dirname(os.path.abspath(__file__)))
es = json.load(open("/root/.vp/EVIDENCE.schema.json"))
ok = True
man = json.load(open(os.path.join(VERIF, "MANIFEST.json")))
jsonschema.validate(man, json.load(open("/root/.vp/MANIFEST.schema.json")))
levels = {c["property_id"]: c["level_claimed"]["category"] for c in man["checks"]}
for pid in sorted(levels):
    f = os.path.join(VERIF, "evidence", pid + ".json")
    if not os.path.exists(f):
        print(pid, "MISSING"); ok = False; continue
    e = json.load(open(f))
    try:
        jsonschema.validate(e, es)
    except jsonschema.ValidationError as err:
        print(pid, "INVALID:", err.message[:200]); ok = False; continue
    if e["level"] != levels[pid]:
        print(pid, "level mismatch", e["level"], levels[pid]); ok = False
    c = e["coverage"]
    print("%s ok tier=%s evals=%d nontrivial=%d samples=%d wall=%.1fs" % (pid, e["tier"], c["evaluations"], c["distinct_nontrivial"], len(c["samples"]), e["wall_s"]))
sys.exit(0 if ok else 1)

package props

import (
	"encoding/json"
	"fmt"
	"os"
	"reflect"
	"sort"
	"strings"
	"sync"
	"sync/atomic"
	"testing"

	"verifharness/evid"
	"verifharness/model"

	"github.com/fluffle/goirc/state"
	"pgregory.net/rapid"
)

// ---------------------------------------------------------------------------
// tracker operations as data
// ---------------------------------------------------------------------------

type trOp struct {
	Op   string   `json:"op"`
	A    string   `json:"a,omitempty"`
	B    string   `json:"b,omitempty"`
	C    string   `json:"c,omitempty"`
	D    string   `json:"d,omitempty"`
	Args []string `json:"args,omitempty"`
}

func (o trOp) String() string {
	switch o.Op {
	case "NickInfo":
		return fmt.Sprintf("NickInfo(%q,%q,%q,%q)", o.A, o.B, o.C, o.D)
	case "ChannelModes":
		return fmt.Sprintf("ChannelModes(%q,%q,%q)", o.A, o.B, o.Args)
	case "ReNick", "IsOn", "Associate", "Dissociate", "Topic", "NickModes":
		return fmt.Sprintf("%s(%q,%q)", o.Op, o.A, o.B)
	case "Wipe", "Me", "String":
		return o.Op + "()"
	}
	return fmt.Sprintf("%s(%q)", o.Op, o.A)
}

type trResult struct {
	Nick  *state.Nick
	Chan  *state.Channel
	Privs *state.ChanPrivs
	OK    bool
	Kind  string // "nick", "chan", "privs", "ison", "none"
}

func applyReal(st state.Tracker, o trOp) (r trResult) {
	switch o.Op {
	case "NewNick":
		return trResult{Nick: st.NewNick(o.A), Kind: "nick"}
	case "GetNick":
		return trResult{Nick: st.GetNick(o.A), Kind: "nick"}
	case "ReNick":
		return trResult{Nick: st.ReNick(o.A, o.B), Kind: "nick"}
	case "DelNick":
		return trResult{Nick: st.DelNick(o.A), Kind: "nick"}
	case "NickInfo":
		return trResult{Nick: st.NickInfo(o.A, o.B, o.C, o.D), Kind: "nick"}
	case "NickModes":
		return trResult{Nick: st.NickModes(o.A, o.B), Kind: "nick"}
	case "NewChannel":
		return trResult{Chan: st.NewChannel(o.A), Kind: "chan"}
	case "GetChannel":
		return trResult{Chan: st.GetChannel(o.A), Kind: "chan"}
	case "DelChannel":
		return trResult{Chan: st.DelChannel(o.A), Kind: "chan"}
	case "Topic":
		return trResult{Chan: st.Topic(o.A, o.B), Kind: "chan"}
	case "ChannelModes":
		return trResult{Chan: st.ChannelModes(o.A, o.B, o.Args...), Kind: "chan"}
	case "Me":
		return trResult{Nick: st.Me(), Kind: "nick"}
	case "IsOn":
		p, ok := st.IsOn(o.A, o.B)
		return trResult{Privs: p, OK: ok, Kind: "ison"}
	case "Associate":
		return trResult{Privs: st.Associate(o.A, o.B), Kind: "privs"}
	case "Dissociate":
		st.Dissociate(o.A, o.B)
	case "Wipe":
		st.Wipe()
	case "String":
		_ = st.String()
	}
	return trResult{Kind: "none"}
}

func applyModel(m *model.Tracker, o trOp) trResult {
	switch o.Op {
	case "NewNick":
		return trResult{Nick: m.NewNick(o.A), Kind: "nick"}
	case "GetNick":
		return trResult{Nick: m.GetNick(o.A), Kind: "nick"}
	case "ReNick":
		return trResult{Nick: m.ReNick(o.A, o.B), Kind: "nick"}
	case "DelNick":
		return trResult{Nick: m.DelNick(o.A), Kind: "nick"}
	case "NickInfo":
		return trResult{Nick: m.NickInfo(o.A, o.B, o.C, o.D), Kind: "nick"}
	case "NickModes":
		return trResult{Nick: m.NickModes(o.A, o.B), Kind: "nick"}
	case "NewChannel":
		return trResult{Chan: m.NewChannel(o.A), Kind: "chan"}
	case "GetChannel":
		return trResult{Chan: m.GetChannel(o.A), Kind: "chan"}
	case "DelChannel":
		return trResult{Chan: m.DelChannel(o.A), Kind: "chan"}
	case "Topic":
		return trResult{Chan: m.Topic(o.A, o.B), Kind: "chan"}
	case "ChannelModes":
		return trResult{Chan: m.ChannelModes(o.A, o.B, o.Args...), Kind: "chan"}
	case "Me":
		return trResult{Nick: m.MeSnap(), Kind: "nick"}
	case "IsOn":
		p, ok := m.IsOn(o.A, o.B)
		return trResult{Privs: p, OK: ok, Kind: "ison"}
	case "Associate":
		return trResult{Privs: m.Associate(o.A, o.B), Kind: "privs"}
	case "Dissociate":
		m.Dissociate(o.A, o.B)
	case "Wipe":
		m.Wipe()
	}
	return trResult{Kind: "none"}
}

func fmtNick(n *state.Nick) string {
	if n == nil {
		return "<nil>"
	}
	chs := []string{}
	for c, p := range n.Channels {
		chs = append(chs, c+":"+p.String())
	}
	sort.Strings(chs)
	return fmt.Sprintf("{%q %q@%q %q modes=%s chans=%v}", n.Nick, n.Ident, n.Host, n.Name, n.Modes.String(), chs)
}

func fmtChan(c *state.Channel) string {
	if c == nil {
		return "<nil>"
	}
	ns := []string{}
	for n, p := range c.Nicks {
		ns = append(ns, n+":"+p.String())
	}
	sort.Strings(ns)
	return fmt.Sprintf("{%q topic=%q modes=%s key=%q limit=%d nicks=%v}", c.Name, c.Topic, c.Modes.String(), c.Modes.Key, c.Modes.Limit, ns)
}

func fmtPrivs(p *state.ChanPrivs, ok bool) string {
	if p == nil {
		return fmt.Sprintf("(<nil>,%v)", ok)
	}
	return fmt.Sprintf("(%s,%v)", p.String(), ok)
}

// sameResult compares a real return value with the model's. lenient covers
// what the statement leaves open: the membership map of a snapshot returned
// by a delete may be the pre- or the post-deletion one, and ReNick(x, x) may
// return nil or the unchanged snapshot.
func sameResult(o trOp, real, want trResult, m *model.Tracker) string {
	switch want.Kind {
	case "nick":
		if o.Op == "ReNick" && o.A == o.B && want.Nick == nil {
			if real.Nick == nil || reflect.DeepEqual(real.Nick, m.NickSnap(o.A)) {
				return ""
			}
		}
		if o.Op == "DelNick" && want.Nick != nil && real.Nick != nil && len(real.Nick.Channels) == 0 {
			w := *want.Nick
			w.Channels = map[string]*state.ChanPrivs{}
			if reflect.DeepEqual(real.Nick, &w) {
				return ""
			}
		}
		if !reflect.DeepEqual(real.Nick, want.Nick) {
			return fmt.Sprintf("%s returned %s, model %s", o, fmtNick(real.Nick), fmtNick(want.Nick))
		}
	case "chan":
		if o.Op == "DelChannel" && want.Chan != nil && real.Chan != nil && len(real.Chan.Nicks) == 0 {
			w := *want.Chan
			w.Nicks = map[string]*state.ChanPrivs{}
			if reflect.DeepEqual(real.Chan, &w) {
				return ""
			}
		}
		if !reflect.DeepEqual(real.Chan, want.Chan) {
			return fmt.Sprintf("%s returned %s, model %s", o, fmtChan(real.Chan), fmtChan(want.Chan))
		}
	case "privs":
		if !reflect.DeepEqual(real.Privs, want.Privs) {
			return fmt.Sprintf("%s returned %s, model %s", o, fmtPrivs(real.Privs, true), fmtPrivs(want.Privs, true))
		}
	case "ison":
		if real.OK != want.OK || !reflect.DeepEqual(real.Privs, want.Privs) {
			return fmt.Sprintf("%s returned %s, model %s", o, fmtPrivs(real.Privs, real.OK), fmtPrivs(want.Privs, want.OK))
		}
	}
	return ""
}

// probeTracker compares the full observable state over a name universe.
func probeTracker(st state.Tracker, m *model.Tracker, nicks, chans []string) string {
	if got, want := st.Me(), m.MeSnap(); !reflect.DeepEqual(got, want) {
		return fmt.Sprintf("Me() = %s, model %s", fmtNick(got), fmtNick(want))
	}
	for _, n := range nicks {
		if got, want := st.GetNick(n), m.NickSnap(n); !reflect.DeepEqual(got, want) {
			return fmt.Sprintf("GetNick(%q) = %s, model %s", n, fmtNick(got), fmtNick(want))
		}
	}
	for _, c := range chans {
		if got, want := st.GetChannel(c), m.ChanSnap(c); !reflect.DeepEqual(got, want) {
			return fmt.Sprintf("GetChannel(%q) = %s, model %s", c, fmtChan(got), fmtChan(want))
		}
		for _, n := range nicks {
			gp, gok := st.IsOn(c, n)
			wp, wok := m.IsOn(c, n)
			if gok != wok || !reflect.DeepEqual(gp, wp) {
				return fmt.Sprintf("IsOn(%q,%q) = %s, model %s", c, n, fmtPrivs(gp, gok), fmtPrivs(wp, wok))
			}
		}
	}
	return ""
}

// ---------------------------------------------------------------------------
// random histories
// ---------------------------------------------------------------------------

type c12Scenario struct {
	Me  string `json:"me"`
	Ops []trOp `json:"ops"`
}

var c12Nicks = []string{"me", "a", "b", "c", "A", "d", "", "ab"} // ("#x"+"ab" and "#xa"+"b" read the same when glued together)
var c12Chans = []string{"#x", "#y", "#X", "&z", "", "#xa"}

func genModeString(t *rapid.T, m *model.Tracker, ch string) (string, []string) {
	var modes strings.Builder
	var args []string
	sign := rapid.SampledFrom([]string{"+", "-"}).Draw(t, "sign")
	modes.WriteString(sign)
	open := false // once set, no further argument-consuming letters
	var members []string
	for k := range m.Member {
		if k.Chan == ch {
			members = append(members, k.Nick)
		}
	}
	sort.Strings(members)
	n := rapid.IntRange(1, 5).Draw(t, "nletters")
	for i := 0; i < n; i++ {
		if rapid.IntRange(0, 3).Draw(t, "flip") == 0 {
			sign = rapid.SampledFrom([]string{"+", "-"}).Draw(t, "sign")
			modes.WriteString(sign)
		}
		kind := rapid.IntRange(0, 9).Draw(t, "letter_kind")
		switch {
		case kind <= 3 || open:
			if !open && rapid.IntRange(0, 5).Draw(t, "list_mode") == 0 {
				// ban / exception / invite mask: an argument of its own that is not tracked
				modes.WriteString(rapid.SampledFrom([]string{"b", "e", "I"}).Draw(t, "list_letter"))
				args = append(args, rapid.SampledFrom([]string{"*!*@bad.host", "a", "me"}).Draw(t, "mask"))
				continue
			}
			modes.WriteString(rapid.SampledFrom([]string{"i", "m", "n", "p", "r", "s", "t", "z", "Z", "O", "X", "f"}).Draw(t, "flag"))
		case kind <= 5:
			// key
			modes.WriteString("k")
			if sign == "+" {
				if rapid.IntRange(0, 5).Draw(t, "key_missing") != 0 {
					args = append(args, rapid.SampledFrom([]string{"key", "s3cret", "k", "0"}).Draw(t, "key"))
				} else {
					open = true // "+k" with no argument left: later letters would be argument-starved in an unspecified way
				}
			} else {
				if rapid.Bool().Draw(t, "minus_k_arg") {
					args = append(args, "key")
				}
				open = true
			}
		case kind == 6:
			modes.WriteString("l")
			if sign == "+" {
				if rapid.IntRange(0, 5).Draw(t, "limit_missing") != 0 {
					args = append(args, rapid.SampledFrom([]string{"5", "0", "120", "abc", "-3", "12x"}).Draw(t, "limit"))
				} else {
					open = true
				}
			}
		default:
			modes.WriteString(rapid.SampledFrom([]string{"q", "a", "o", "h", "v"}).Draw(t, "priv"))
			switch {
			case len(members) > 0 && rapid.IntRange(0, 5).Draw(t, "priv_member") != 0:
				args = append(args, rapid.SampledFrom(members).Draw(t, "priv_nick"))
			case rapid.Bool().Draw(t, "priv_noarg"):
				open = true
			default:
				args = append(args, rapid.SampledFrom([]string{"zz", "a", "b", "me", "c"}).Draw(t, "priv_stranger"))
				open = true
			}
		}
	}
	return modes.String(), args
}

func genTrOp(t *rapid.T, m *model.Tracker) trOp {
	nick := func(l string) string { return rapid.SampledFrom(c12Nicks).Draw(t, l) }
	chanl := func(l string) string { return rapid.SampledFrom(c12Chans).Draw(t, l) }
	known := func(l string) string {
		names := make([]string, 0, len(m.Nicks))
		for n := range m.Nicks {
			names = append(names, n)
		}
		sort.Strings(names)
		if len(names) == 0 || rapid.IntRange(0, 5).Draw(t, l+"_any") == 0 {
			return nick(l)
		}
		return rapid.SampledFrom(names).Draw(t, l)
	}
	knownChan := func(l string) string {
		names := make([]string, 0, len(m.Chans))
		for n := range m.Chans {
			names = append(names, n)
		}
		sort.Strings(names)
		if len(names) == 0 || rapid.IntRange(0, 5).Draw(t, l+"_any") == 0 {
			return chanl(l)
		}
		return rapid.SampledFrom(names).Draw(t, l)
	}
	ops := []string{"NewNick", "NewNick", "NewChannel", "NewChannel", "Associate", "Associate", "Associate", "Associate",
		"ReNick", "ReNick", "DelNick", "NickInfo", "NickModes", "DelChannel", "Topic", "ChannelModes", "ChannelModes", "ChannelModes",
		"Dissociate", "Dissociate", "Wipe", "IsOn", "GetNick", "GetChannel", "Me", "String"}
	switch op := rapid.SampledFrom(ops).Draw(t, "op"); op {
	case "NewNick":
		return trOp{Op: op, A: nick("n")}
	case "GetNick", "DelNick":
		return trOp{Op: op, A: known("n")}
	case "ReNick":
		neu := rapid.SampledFrom(c12Nicks).Draw(t, "neu") // the empty name too: a rename has no validation of its own
		return trOp{Op: op, A: known("old"), B: neu}
	case "NickInfo":
		return trOp{Op: op, A: known("n"), B: rapid.SampledFrom([]string{"id", "~u", ""}).Draw(t, "ident"), C: rapid.SampledFrom([]string{"host", "h.example", ""}).Draw(t, "host"), D: rapid.SampledFrom([]string{"Real Name", "r", ""}).Draw(t, "name")}
	case "NickModes":
		s := rapid.SampledFrom([]string{"+", "-"}).Draw(t, "sign") + genUnits(t, "nm", []string{"B", "i", "o", "w", "x", "z", "q", "+", "-"}, 1, 5)
		return trOp{Op: op, A: known("n"), B: s}
	case "NewChannel":
		return trOp{Op: op, A: chanl("c")}
	case "GetChannel", "DelChannel":
		return trOp{Op: op, A: knownChan("c")}
	case "Topic":
		return trOp{Op: op, A: knownChan("c"), B: rapid.SampledFrom([]string{"topic", "", "another topic"}).Draw(t, "topic")}
	case "ChannelModes":
		c := knownChan("c")
		ms, args := genModeString(t, m, c)
		return trOp{Op: op, A: c, B: ms, Args: args}
	case "IsOn", "Associate", "Dissociate":
		return trOp{Op: op, A: knownChan("c"), B: known("n")}
	default:
		return trOp{Op: op}
	}
}

func genC12(t *rapid.T) (*c12Scenario, []string) {
	sc := &c12Scenario{Me: "me"}
	m := model.NewTracker(sc.Me)
	var cls []string
	n := rapid.IntRange(10, 300).Draw(t, "nops")
	affected := false
	for i := 0; i < n; i++ {
		o := genTrOp(t, m)
		before := len(m.Nicks)
		meBefore := m.Me
		r := applyModel(m, o)
		acc := "refused"
		if (r.Kind == "nick" && r.Nick != nil) || (r.Kind == "chan" && r.Chan != nil) || (r.Kind == "privs" && r.Privs != nil) || r.Kind == "none" || r.Kind == "ison" {
			acc = "accepted"
		}
		cls = append(cls, o.Op+"/"+acc)
		if o.Op == "ReNick" && acc == "accepted" {
			cls = append(cls, "rename")
			if meBefore != m.Me {
				cls = append(cls, "rename_of_me")
			}
			affected = true
		}
		if (o.Op == "DelChannel" || o.Op == "Dissociate" || o.Op == "Wipe") && len(m.Nicks) < before {
			cls = append(cls, "gc_event")
			affected = true
		}
		sc.Ops = append(sc.Ops, o)
	}
	if affected {
		cls = append(cls, "NONTRIVIAL")
	}
	return sc, cls
}

func runC12(sc *c12Scenario, nicks, chans []string) *Violation {
	st := state.NewTracker(sc.Me)
	m := model.NewTracker(sc.Me)
	// every returned value must keep equalling what was returned, whatever the tracker does later
	type kept struct {
		step      int
		op        trOp
		got, copy trResult
	}
	var retained []kept
	defer func() { retained = nil }()
	for i, o := range sc.Ops {
		var real trResult
		var pan interface{}
		func() {
			defer func() { pan = recover() }()
			real = applyReal(st, o)
		}()
		if pan != nil {
			return violationf("C12", "step %d %s panicked: %v", i, o, pan)
		}
		want := applyModel(m, o)
		if d := sameResult(o, real, want, m); d != "" {
			return violationf("C12", "step %d: %s", i, d)
		}
		if d := probeTracker(st, m, nicks, chans); d != "" {
			return violationf("C12", "after step %d %s: %s", i, o, d)
		}
		if real.Nick != nil || real.Chan != nil || real.Privs != nil {
			retained = append(retained, kept{i, o, real, deepCopyResult(real)})
			if len(retained) > 40 {
				retained = retained[1:]
			}
		}
		for _, k := range retained {
			if !sameResultValue(k.got, k.copy) {
				return violationf("C12", "the result of step %d %s changed after it was returned, when step %d %s ran: it now reads nick=%s chan=%s privs=%s", k.step, k.op, i, o, fmtNick(k.got.Nick), fmtChan(k.got.Chan), fmtPrivs(k.got.Privs, k.got.OK))
			}
		}
	}
	return nil
}

func universeOf(sc *c12Scenario) (nicks, chans []string) {
	ns, cs := map[string]bool{sc.Me: true}, map[string]bool{}
	for _, n := range c12Nicks {
		ns[n] = true
	}
	for _, c := range c12Chans {
		cs[c] = true
	}
	for _, o := range sc.Ops {
		switch o.Op {
		case "NewNick", "GetNick", "DelNick", "NickInfo", "NickModes":
			ns[o.A] = true
		case "ReNick":
			ns[o.A], ns[o.B] = true, true
		case "NewChannel", "GetChannel", "DelChannel", "Topic", "ChannelModes":
			cs[o.A] = true
			for _, a := range o.Args {
				ns[a] = true
			}
		case "IsOn", "Associate", "Dissociate":
			cs[o.A], ns[o.B] = true, true
		}
	}
	for n := range ns {
		nicks = append(nicks, n)
	}
	for c := range cs {
		chans = append(chans, c)
	}
	sort.Strings(nicks)
	sort.Strings(chans)
	return
}

func TestC12(t *testing.T) {
	col := evid.New("C12", "random histories of 10..300 operations over the whole Tracker interface (7 nick names incl. empty and case variants, 5 channel names, full mode alphabets with arguments), real tracker vs relational model: every return value and the full observable state after every step; non-trivial = history contains an accepted rename or a delete/dissociate/wipe that garbage-collects another nick; distinct by history")
	defer finish(t, col)
	rapid.Check(t, func(t *rapid.T) {
		sc, cls := genC12(t)
		nicks, chans := universeOf(sc)
		v := runC12(sc, nicks, chans)
		nontrivial := false
		uniq := map[string]bool{}
		for _, c := range cls {
			if c == "NONTRIVIAL" {
				nontrivial = true
				continue
			}
			uniq[c] = true
		}
		var ucls []string
		for c := range uniq {
			ucls = append(ucls, c)
		}
		b, _ := json.Marshal(sc.Ops)
		col.Case(string(b), nontrivial, ucls...)
		col.Add("traces_validated_against_impl", 1)
		if len(sc.Ops) <= 14 {
			strs := []string{}
			for _, o := range sc.Ops {
				strs = append(strs, o.String())
			}
			col.Sample(strs)
		}
		if v != nil {
			failRapid(t, "TestC12", v, sc)
		}
	})
}

func TestC12_Replay(t *testing.T) {
	var sc c12Scenario
	loadReplay(t, &sc)
	nicks, chans := universeOf(&sc)
	if v := runC12(&sc, nicks, chans); v != nil {
		t.Fatalf("REPRODUCED %s", v.Msg)
	}
}

// ---------------------------------------------------------------------------
// closure over a small universe
// ---------------------------------------------------------------------------

func closureOps(nicks, chans []string, rich bool) []trOp {
	var ops []trOp
	ne := append([]string{}, nicks...)
	ne = append(ne, "")
	ce := append([]string{}, chans...)
	ce = append(ce, "")
	for _, n := range ne {
		ops = append(ops, trOp{Op: "NewNick", A: n}, trOp{Op: "DelNick", A: n}, trOp{Op: "NickInfo", A: n, B: "i", C: "h", D: "r"})
		if rich {
			ops = append(ops, trOp{Op: "NickModes", A: n, B: "+i"}, trOp{Op: "NickModes", A: n, B: "-i"})
		}
		for _, neu := range ne {
			ops = append(ops, trOp{Op: "ReNick", A: n, B: neu})
		}
	}
	for _, c := range ce {
		ops = append(ops, trOp{Op: "NewChannel", A: c}, trOp{Op: "DelChannel", A: c}, trOp{Op: "Topic", A: c, B: "t"})
		if rich {
			ops = append(ops, trOp{Op: "ChannelModes", A: c, B: "+s"}, trOp{Op: "ChannelModes", A: c, B: "-s"},
				trOp{Op: "ChannelModes", A: c, B: "+k", Args: []string{"key"}}, trOp{Op: "ChannelModes", A: c, B: "-k"},
				trOp{Op: "ChannelModes", A: c, B: "+l", Args: []string{"5"}}, trOp{Op: "ChannelModes", A: c, B: "-l"})
		}
		for _, n := range ne {
			ops = append(ops, trOp{Op: "Associate", A: c, B: n}, trOp{Op: "Dissociate", A: c, B: n})
		}
		for _, n := range nicks {
			// privilege change: only generated when n is a member (checked at expansion time)
			ops = append(ops, trOp{Op: "ChannelModes", A: c, B: "+o", Args: []string{n}}, trOp{Op: "ChannelModes", A: c, B: "-o", Args: []string{n}})
		}
	}
	ops = append(ops, trOp{Op: "Wipe"})
	return ops
}

func opAllowed(m *model.Tracker, o trOp) bool {
	if o.Op == "ChannelModes" && (o.B == "+o" || o.B == "-o") {
		_, member := m.IsOn(o.A, o.Args[0])
		return member // privilege change for a non-member is left open
	}
	return true
}

type closureState struct {
	m    *model.Tracker
	path []trOp
}

func TestC12_Enum(t *testing.T) {
	col := evid.New("C12", "breadth-first closure of the reachable model states over a small name universe; from every state every operation with every argument tuple (quick: and every pair of operations) is executed on a real tracker rebuilt by replaying the shortest path; non-trivial = every edge (each is a distinct (state, operation[, operation]) triple); distinct by construction")
	defer finish(t, col)
	nicks := strings.Split(envStr("VERIF_C12_NICKS", "me,a"), ",")
	chans := strings.Split(envStr("VERIF_C12_CHANS", "#x"), ",")
	depth2 := envInt("VERIF_C12_DEPTH2", 1) == 1
	rich := envInt("VERIF_C12_RICH", 0) == 1
	capStates := envInt("VERIF_C12_CAP", 400000)
	shard, shards := envInt("VERIF_SHARD", 0), envInt("VERIF_SHARDS", 1)
	ops := closureOps(nicks, chans, rich)
	seen := map[string]bool{}
	start := closureState{m: model.NewTracker(nicks[0])}
	seen[start.m.Canon()] = true
	queue := []closureState{start}
	var edges, states int64
	truncated := false
	check := func(path []trOp, suffix ...trOp) *Violation {
		sc := &c12Scenario{Me: nicks[0], Ops: append(append([]trOp{}, path...), suffix...)}
		// replay the prefix without probing (it was probed when that state was first reached) and
		// check only the suffix steps in full
		st := state.NewTracker(sc.Me)
		m := model.NewTracker(sc.Me)
		for _, o := range path {
			applyReal(st, o)
			applyModel(m, o)
		}
		for i, o := range suffix {
			var real trResult
			var pan interface{}
			func() {
				defer func() { pan = recover() }()
				real = applyReal(st, o)
			}()
			if pan != nil {
				return violationf("C12", "after %v: %s panicked: %v", path, o, pan)
			}
			want := applyModel(m, o)
			if d := sameResult(o, real, want, m); d != "" {
				writeReplay("TestC12", violationf("C12", "%s", d), sc)
				return violationf("C12", "after path of %d ops, suffix step %d: %s", len(path), i, d)
			}
			if d := probeTracker(st, m, append(append([]string{}, nicks...), ""), append(append([]string{}, chans...), "")); d != "" {
				writeReplay("TestC12", violationf("C12", "%s", d), sc)
				return violationf("C12", "after path of %d ops + %v: %s", len(path), suffix[:i+1], d)
			}
		}
		return nil
	}
	workers := envInt("VERIF_WORKERS", 16)
	jobs := make(chan closureState, 4*workers)
	var wg sync.WaitGroup
	var edgesAtomic atomic.Int64
	var firstViolation atomic.Pointer[Violation]
	for w := 0; w < workers; w++ {
		wg.Add(1)
		go func() {
			defer wg.Done()
			for s := range jobs {
				if firstViolation.Load() != nil {
					continue
				}
				var n int64
				for _, o := range ops {
					if !opAllowed(s.m, o) {
						continue
					}
					if !depth2 {
						if v := check(s.path, o); v != nil {
							firstViolation.CompareAndSwap(nil, v)
							break
						}
						n++
						continue
					}
					next := s.m.Clone()
					applyModel(next, o)
					for _, o2 := range ops {
						if !opAllowed(next, o2) {
							continue
						}
						if v := check(s.path, o, o2); v != nil {
							firstViolation.CompareAndSwap(nil, v)
							break
						}
						n++
					}
				}
				edgesAtomic.Add(n)
			}
		}()
	}
	for len(queue) > 0 && firstViolation.Load() == nil {
		s := queue[0]
		queue = queue[1:]
		states++
		mine := int(evid.Hash(s.m.Canon())%uint64(shards)) == shard
		if mine {
			jobs <- s
		}
		for _, o := range ops {
			if !opAllowed(s.m, o) {
				continue
			}
			next := s.m.Clone()
			applyModel(next, o)
			k := next.Canon()
			if !seen[k] {
				if len(seen) >= capStates {
					truncated = true
					continue
				}
				seen[k] = true
				queue = append(queue, closureState{m: next, path: append(append([]trOp{}, s.path...), o)})
			}
		}
		if states%997 == 1 && mine {
			p := []string{}
			for _, o := range s.path {
				p = append(p, o.String())
			}
			col.Sample(map[string]interface{}{"state": s.m.Canon(), "shortest_path": p})
		}
	}
	close(jobs)
	wg.Wait()
	edges = edgesAtomic.Load()
	if v := firstViolation.Load(); v != nil {
		col.Enumerated(edges, edges)
		t.Fatalf("VIOLATION C12: %s", v.Msg)
	}
	col.Enumerated(edges, edges)
	if shard == 0 {
		col.Set("closure_states", states)
	}
	col.Set("closure_edges_executed", edges)
	col.Set("transitions", edges)
	col.Set("traces_validated_against_impl", edges)
	if shard == 0 {
		col.Set("states", states)
	}
	col.Set("closure_universe", fmt.Sprintf("nicks=%v chans=%v depth2=%v rich=%v", nicks, chans, depth2, rich))
	col.Set("exhaustive_closure", !truncated)
}

func envStr(name, def string) string {
	if v := strings.TrimSpace(os.Getenv(name)); v != "" {
		return v
	}
	return def
}

// ---------------------------------------------------------------------------
// large-state leg: thousands of nicks, then mass removal
// ---------------------------------------------------------------------------

type c12Large struct {
	Nicks     int   `json:"nicks"`
	Chans     int   `json:"chans"`
	MeOn      []int `json:"me_on"`      // channels the client is on
	Loose     int   `json:"loose"`      // nicks created but on no channel
	Removals  []int `json:"removals"`   // channels removed in this order: even index DelChannel, odd index Dissociate(me) (when on it)
	DelEvery  int   `json:"del_every"`  // additionally every k-th nick is deleted (0: none)
}

func runC12Large(sc *c12Large) *Violation {
	st := state.NewTracker("me")
	m := model.NewTracker("me")
	var nicks, chans []string
	step := 0
	do := func(o trOp) *Violation {
		step++
		var real trResult
		var pan interface{}
		func() {
			defer func() { pan = recover() }()
			real = applyReal(st, o)
		}()
		if pan != nil {
			return violationf("C12", "large state, step %d %s panicked: %v", step, o, pan)
		}
		want := applyModel(m, o)
		if d := sameResult(o, real, want, m); d != "" {
			return violationf("C12", "large state (%d nicks, %d channels), step %d: %s", sc.Nicks, sc.Chans, step, d)
		}
		return nil
	}
	for c := 0; c < sc.Chans; c++ {
		chans = append(chans, fmt.Sprintf("#c%02d", c))
		if v := do(trOp{Op: "NewChannel", A: chans[c]}); v != nil {
			return v
		}
	}
	for _, c := range sc.MeOn {
		if v := do(trOp{Op: "Associate", A: chans[c%sc.Chans], B: "me"}); v != nil {
			return v
		}
	}
	for i := 0; i < sc.Nicks; i++ {
		n := fmt.Sprintf("n%04d", i)
		nicks = append(nicks, n)
		if v := do(trOp{Op: "NewNick", A: n}); v != nil {
			return v
		}
		if i < sc.Loose {
			continue // on no channel
		}
		for k := 0; k <= i%2; k++ {
			if v := do(trOp{Op: "Associate", A: chans[(i+k*7)%sc.Chans], B: n}); v != nil {
				return v
			}
		}
	}
	probe := func(where string) *Violation {
		if d := probeTracker(st, m, append([]string{"me"}, nicks...), chans); d != "" {
			return violationf("C12", "large state (%d nicks, %d channels) %s: %s", sc.Nicks, sc.Chans, where, d)
		}
		return nil
	}
	if v := probe("after the build-up"); v != nil {
		return v
	}
	for k, c := range sc.Removals {
		o := trOp{Op: "DelChannel", A: chans[c%sc.Chans]}
		if k%2 == 1 {
			o = trOp{Op: "Dissociate", A: chans[c%sc.Chans], B: "me"}
		}
		if v := do(o); v != nil {
			return v
		}
	}
	if sc.DelEvery > 0 {
		for i := sc.Loose; i < sc.Nicks; i += sc.DelEvery {
			if v := do(trOp{Op: "DelNick", A: nicks[i]}); v != nil {
				return v
			}
		}
	}
	if v := probe("after the mass removal"); v != nil {
		return v
	}
	// the nicks that were on no channel all along are still there and usable
	for i := 0; i < sc.Loose && i < 3; i++ {
		if v := do(trOp{Op: "GetNick", A: nicks[i]}); v != nil {
			return v
		}
		if v := do(trOp{Op: "NewNick", A: nicks[i]}); v != nil {
			return v
		}
	}
	return probe("at the end")
}

func TestC12_Large(t *testing.T) {
	col := evid.New("C12", "large-state leg: 300..3000 nicks on 4..40 channels (a few nicks on no channel, the client on some channels), then most channels removed (DelChannel / Dissociate of the client alternating) and every k-th nick deleted; every return value and the full observable state after build-up, after the removals and at the end must equal the model's; non-trivial always; distinct by scenario")
	defer finish(t, col)
	rapid.Check(t, func(t *rapid.T) {
		sc := &c12Large{Nicks: rapid.SampledFrom([]int{300, 1000, 1030, 1500, 3000}).Draw(t, "nicks"), Chans: rapid.IntRange(4, 40).Draw(t, "chans"),
			Loose: rapid.IntRange(0, 5).Draw(t, "loose"), DelEvery: rapid.SampledFrom([]int{0, 1, 2, 3}).Draw(t, "del_every")}
		for k := rapid.IntRange(0, 6).Draw(t, "me_on_n"); k > 0; k-- {
			sc.MeOn = append(sc.MeOn, rapid.IntRange(0, sc.Chans-1).Draw(t, "me_on"))
		}
		for k := rapid.IntRange(1, sc.Chans).Draw(t, "removals_n"); k > 0; k-- {
			sc.Removals = append(sc.Removals, rapid.IntRange(0, sc.Chans-1).Draw(t, "removal"))
		}
		v := runC12Large(sc)
		b, _ := json.Marshal(sc)
		col.Case(string(b), true, fmt.Sprintf("nicks>=1024=%v", sc.Nicks >= 1024))
		if len(b) < 300 {
			col.Sample(sc)
		}
		if v != nil {
			failRapid(t, "TestC12_Large", v, sc)
		}
	})
}

func TestC12_Large_Replay(t *testing.T) {
	var sc c12Large
	loadReplay(t, &sc)
	if v := runC12Large(&sc); v != nil {
		t.Fatalf("REPRODUCED %s", v.Msg)
	}
}

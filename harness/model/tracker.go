// Package model holds the reference models the oracles compare goirc with.
//
// Tracker is a plain relational model of the state tracker, written from the
// property statement and the Tracker interface's doc comments: a set of nicks
// and a set of channels with attributes, plus a membership relation carrying
// per-channel privileges.
package model

import (
	"sort"
	"strconv"
	"strings"

	"github.com/fluffle/goirc/state"
)

type NickAttr struct {
	Ident, Host, Name string
	Modes             state.NickMode
}

type ChanAttr struct {
	Topic string
	Modes state.ChanMode
}

type MemberKey struct{ Chan, Nick string }

type Tracker struct {
	Me     string
	Nicks  map[string]*NickAttr
	Chans  map[string]*ChanAttr
	Member map[MemberKey]state.ChanPrivs
}

func NewTracker(me string) *Tracker {
	return &Tracker{
		Me:     me,
		Nicks:  map[string]*NickAttr{me: {}},
		Chans:  map[string]*ChanAttr{},
		Member: map[MemberKey]state.ChanPrivs{},
	}
}

func (t *Tracker) Clone() *Tracker {
	c := &Tracker{Me: t.Me, Nicks: map[string]*NickAttr{}, Chans: map[string]*ChanAttr{}, Member: map[MemberKey]state.ChanPrivs{}}
	for k, v := range t.Nicks {
		n := *v
		c.Nicks[k] = &n
	}
	for k, v := range t.Chans {
		n := *v
		c.Chans[k] = &n
	}
	for k, v := range t.Member {
		c.Member[k] = v
	}
	return c
}

// Canon is a canonical text form of the whole model state.
func (t *Tracker) Canon() string {
	var b strings.Builder
	b.WriteString("me=" + strconv.Quote(t.Me) + ";")
	nicks := make([]string, 0, len(t.Nicks))
	for n := range t.Nicks {
		nicks = append(nicks, n)
	}
	sort.Strings(nicks)
	for _, n := range nicks {
		a := t.Nicks[n]
		b.WriteString("N" + strconv.Quote(n) + "{" + strconv.Quote(a.Ident) + strconv.Quote(a.Host) + strconv.Quote(a.Name) + a.Modes.String() + "}")
	}
	chans := make([]string, 0, len(t.Chans))
	for c := range t.Chans {
		chans = append(chans, c)
	}
	sort.Strings(chans)
	for _, c := range chans {
		a := t.Chans[c]
		b.WriteString("C" + strconv.Quote(c) + "{" + strconv.Quote(a.Topic) + a.Modes.String() + "}")
		for _, n := range nicks {
			if p, ok := t.Member[MemberKey{c, n}]; ok {
				b.WriteString("M" + strconv.Quote(n) + p.String() + ";")
			}
		}
	}
	return b.String()
}

// ---- snapshots ----

func (t *Tracker) NickSnap(n string) *state.Nick {
	a, ok := t.Nicks[n]
	if !ok {
		return nil
	}
	m := a.Modes
	s := &state.Nick{Nick: n, Ident: a.Ident, Host: a.Host, Name: a.Name, Modes: &m, Channels: map[string]*state.ChanPrivs{}}
	for k, p := range t.Member {
		if k.Nick == n {
			pp := p
			s.Channels[k.Chan] = &pp
		}
	}
	return s
}

func (t *Tracker) ChanSnap(c string) *state.Channel {
	a, ok := t.Chans[c]
	if !ok {
		return nil
	}
	m := a.Modes
	s := &state.Channel{Name: c, Topic: a.Topic, Modes: &m, Nicks: map[string]*state.ChanPrivs{}}
	for k, p := range t.Member {
		if k.Chan == c {
			pp := p
			s.Nicks[k.Nick] = &pp
		}
	}
	return s
}

// ---- operations (each returns what the Tracker method should return) ----

func (t *Tracker) NewNick(n string) *state.Nick {
	if n == "" {
		return nil
	}
	if _, ok := t.Nicks[n]; ok {
		return nil
	}
	t.Nicks[n] = &NickAttr{}
	return t.NickSnap(n)
}

func (t *Tracker) GetNick(n string) *state.Nick { return t.NickSnap(n) }

func (t *Tracker) ReNick(old, neu string) *state.Nick {
	a, ok := t.Nicks[old]
	if !ok {
		return nil
	}
	if _, used := t.Nicks[neu]; used {
		return nil
	}
	delete(t.Nicks, old)
	t.Nicks[neu] = a
	for k, p := range t.Member {
		if k.Nick == old {
			delete(t.Member, k)
			t.Member[MemberKey{k.Chan, neu}] = p
		}
	}
	if t.Me == old {
		t.Me = neu
	}
	return t.NickSnap(neu)
}

// DelNick returns the snapshot taken before the removal (with memberships);
// callers may accept a result without memberships as well.
func (t *Tracker) DelNick(n string) *state.Nick {
	if _, ok := t.Nicks[n]; !ok || n == t.Me {
		return nil
	}
	s := t.NickSnap(n)
	t.removeNick(n)
	return s
}

func (t *Tracker) removeNick(n string) {
	delete(t.Nicks, n)
	for k := range t.Member {
		if k.Nick == n {
			delete(t.Member, k)
		}
	}
}

func (t *Tracker) NickInfo(n, ident, host, name string) *state.Nick {
	a, ok := t.Nicks[n]
	if !ok {
		return nil
	}
	a.Ident, a.Host, a.Name = ident, host, name
	return t.NickSnap(n)
}

func (t *Tracker) NickModes(n, modes string) *state.Nick {
	a, ok := t.Nicks[n]
	if !ok {
		return nil
	}
	on := false
	for i := 0; i < len(modes); i++ {
		switch modes[i] {
		case '+':
			on = true
		case '-':
			on = false
		case 'B':
			a.Modes.Bot = on
		case 'i':
			a.Modes.Invisible = on
		case 'o':
			a.Modes.Oper = on
		case 'w':
			a.Modes.WallOps = on
		case 'x':
			a.Modes.HiddenHost = on
		case 'z':
			a.Modes.SSL = on
		}
	}
	return t.NickSnap(n)
}

func (t *Tracker) NewChannel(c string) *state.Channel {
	if c == "" {
		return nil
	}
	if _, ok := t.Chans[c]; ok {
		return nil
	}
	t.Chans[c] = &ChanAttr{}
	return t.ChanSnap(c)
}

func (t *Tracker) GetChannel(c string) *state.Channel { return t.ChanSnap(c) }

// removeChannel forgets the channel, its memberships, and every member other
// than the client that is left sharing no channel.
func (t *Tracker) removeChannel(c string) {
	var members []string
	for k := range t.Member {
		if k.Chan == c {
			members = append(members, k.Nick)
			delete(t.Member, k)
		}
	}
	delete(t.Chans, c)
	for _, n := range members {
		if n != t.Me && !t.onAny(n) {
			t.removeNick(n)
		}
	}
}

func (t *Tracker) onAny(n string) bool {
	for k := range t.Member {
		if k.Nick == n {
			return true
		}
	}
	return false
}

func (t *Tracker) DelChannel(c string) *state.Channel {
	if _, ok := t.Chans[c]; !ok {
		return nil
	}
	s := t.ChanSnap(c)
	t.removeChannel(c)
	return s
}

func (t *Tracker) Topic(c, topic string) *state.Channel {
	a, ok := t.Chans[c]
	if !ok {
		return nil
	}
	a.Topic = topic
	return t.ChanSnap(c)
}

// ChannelModes applies a mode string. Left open by the property (and
// therefore never generated except in last position): a privilege letter for
// a nick not on the channel, and -k followed by further argument-taking
// letters.
func (t *Tracker) ChannelModes(c, modes string, args ...string) *state.Channel {
	a, ok := t.Chans[c]
	if !ok {
		return nil
	}
	on := false
	for i := 0; i < len(modes); i++ {
		switch m := modes[i]; m {
		case '+':
			on = true
		case '-':
			on = false
		case 'i':
			a.Modes.InviteOnly = on
		case 'm':
			a.Modes.Moderated = on
		case 'n':
			a.Modes.NoExternalMsg = on
		case 'p':
			a.Modes.Private = on
		case 'r':
			a.Modes.Registered = on
		case 's':
			a.Modes.Secret = on
		case 't':
			a.Modes.ProtectedTopic = on
		case 'z':
			a.Modes.SSLOnly = on
		case 'Z':
			a.Modes.AllSSL = on
		case 'O':
			a.Modes.OperOnly = on
		case 'k':
			if on && len(args) > 0 {
				a.Modes.Key, args = args[0], args[1:]
			} else if !on {
				a.Modes.Key = ""
			}
		case 'l':
			if on && len(args) > 0 {
				n, err := strconv.Atoi(args[0])
				if err != nil {
					n = 0
				}
				a.Modes.Limit, args = n, args[1:]
			} else if !on {
				a.Modes.Limit = 0
			}
		case 'b', 'e', 'I':
			// list modes carry a mask that is not tracked but is an argument of its own
			if len(args) > 0 {
				args = args[1:]
			}
		case 'q', 'a', 'o', 'h', 'v':
			if len(args) == 0 {
				break
			}
			k := MemberKey{c, args[0]}
			p, member := t.Member[k]
			if !member {
				break // left open which argument this consumes
			}
			switch m {
			case 'q':
				p.Owner = on
			case 'a':
				p.Admin = on
			case 'o':
				p.Op = on
			case 'h':
				p.HalfOp = on
			case 'v':
				p.Voice = on
			}
			t.Member[k] = p
			args = args[1:]
		}
	}
	return t.ChanSnap(c)
}

func (t *Tracker) MeSnap() *state.Nick { return t.NickSnap(t.Me) }

func (t *Tracker) IsOn(c, n string) (*state.ChanPrivs, bool) {
	p, ok := t.Member[MemberKey{c, n}]
	if !ok {
		return nil, false
	}
	return &p, true
}

func (t *Tracker) Associate(c, n string) *state.ChanPrivs {
	if _, ok := t.Chans[c]; !ok {
		return nil
	}
	if _, ok := t.Nicks[n]; !ok {
		return nil
	}
	k := MemberKey{c, n}
	if _, ok := t.Member[k]; ok {
		return nil
	}
	t.Member[k] = state.ChanPrivs{}
	return &state.ChanPrivs{}
}

func (t *Tracker) Dissociate(c, n string) {
	k := MemberKey{c, n}
	if _, ok := t.Member[k]; !ok {
		return
	}
	if n == t.Me {
		t.removeChannel(c)
		return
	}
	delete(t.Member, k)
	if !t.onAny(n) {
		t.removeNick(n)
	}
}

func (t *Tracker) Wipe() {
	for c := range t.Chans {
		t.removeChannel(c)
	}
}

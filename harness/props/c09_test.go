package props

import (
	"encoding/json"
	"fmt"
	"runtime"
	"strings"
	"sync"
	"testing"
	"time"

	"verifharness/evid"

	"github.com/fluffle/goirc/client"
	"pgregory.net/rapid"
)

// ---------------------------------------------------------------------------
// C09: outgoing lines reach the server in order, once each
// ---------------------------------------------------------------------------

type c09Sender struct {
	Handler bool  `json:"handler"` // lines are emitted by a foreground handler triggered from the server
	N       int   `json:"n"`
	Methods []int `json:"methods"`  // cyclic: 0 Raw, 1 Privmsg, 2 Notice, 3 Join, 4 Action
	PayLens []int `json:"pay_lens"` // cyclic
	Yield   int   `json:"yield"`    // Gosched every Yield lines (0 never)
}

type c09Scenario struct {
	Senders []c09Sender `json:"senders"`
	Server  string      `json:"server"` // fast, slow, bursty
	Pattern []int       `json:"pattern"`
	Procs   int         `json:"gomaxprocs"`
	StallMS int         `json:"stall_ms"` // the server stops reading for this long (Config.Timeout is 20 ms then); 0 never
	Toggler bool        `json:"toggler"`  // another goroutine switches state tracking on and off on the live client meanwhile
	// Second: the session runs on the client's second connection (after a first one that was welcomed and
	// closed, SecondGapMS earlier): its registration lines are outgoing lines too
	Second      bool `json:"second_connection"`
	SecondGapMS int  `json:"second_gap_ms"`
}

func genC09(t *rapid.T) *c09Scenario {
	sc := &c09Scenario{Server: rapid.SampledFrom([]string{"fast", "slow", "bursty"}).Draw(t, "server"), Procs: rapid.SampledFrom([]int{1, 2, 4, 16}).Draw(t, "gomaxprocs")}
	ng := rapid.IntRange(1, 8).Draw(t, "goroutine_senders")
	nh := rapid.IntRange(0, 3).Draw(t, "handler_senders")
	for i := 0; i < ng+nh; i++ {
		s := c09Sender{Handler: i >= ng, N: rapid.IntRange(1, 200).Draw(t, "n"), Yield: rapid.SampledFrom([]int{0, 1, 7}).Draw(t, "yield")}
		if rapid.Bool().Draw(t, "few") {
			s.N = rapid.IntRange(1, 20).Draw(t, "n_few")
		}
		for k := rapid.IntRange(1, 4).Draw(t, "nm"); k > 0; k-- {
			s.Methods = append(s.Methods, rapid.IntRange(0, 4).Draw(t, "method"))
		}
		for k := rapid.IntRange(1, 3).Draw(t, "np"); k > 0; k-- {
			s.PayLens = append(s.PayLens, rapid.SampledFrom([]int{0, 1, 10, 80, 400, 505, 520, 1000, 5000, -510, -511, -512, -4094, -4095, -4096, -4097, -8192}).Draw(t, "paylen")) // negative: -(total length of the line), for Raw
		}
		sc.Senders = append(sc.Senders, s)
	}
	sc.Toggler = rapid.IntRange(0, 2).Draw(t, "toggler") == 0
	if rapid.IntRange(0, 3).Draw(t, "second") == 0 {
		sc.Second = true
		sc.SecondGapMS = rapid.SampledFrom([]int{0, 0, 1, 30, 250}).Draw(t, "second_gap_ms")
	}
	if rapid.IntRange(0, 4).Draw(t, "stall") == 0 {
		sc.StallMS = rapid.SampledFrom([]int{30, 60, 120}).Draw(t, "stall_ms")
	}
	for k := rapid.IntRange(1, 30).Draw(t, "npattern"); k > 0; k-- {
		sc.Pattern = append(sc.Pattern, rapid.IntRange(1, 40).Draw(t, "allow"))
	}
	return sc
}

var c09Units = []string{"%", "%s", "100% ", "%d%%", "\\", "\u00e9"}

// c09Line is the exact wire line sender g's i-th call must produce.
func c09Line(g, i int, s *c09Sender) (wire string, call func(c *client.Conn)) {
	pl := s.PayLens[i%len(s.PayLens)]
	method := s.Methods[i%len(s.Methods)]
	if pl < 0 {
		// a line of exactly -pl bytes (sizes of the protocol limit and of typical I/O buffers)
		if method == 0 {
			pl = -pl - len(fmt.Sprintf("S%d.%d raw ", g, i))
		} else {
			pl = 400
		}
	}
	if pl > 400 && method != 0 {
		pl = 400 // the splitting methods would cut a longer text (C11's subject); Raw takes any length
	}
	// byte for byte: letters, but also what a formatting or escaping layer would react to
	unit := string(rune('a' + g%26))
	if k := (g*7 + i) % 9; k < len(c09Units) {
		unit = c09Units[k]
	}
	pay := strings.Repeat(unit, pl/len(unit)+1)[:pl]
	id := fmt.Sprintf("S%d.%d", g, i)
	switch method {
	case 1:
		return "PRIVMSG #c" + id + " :" + pay, func(c *client.Conn) { c.Privmsg("#c"+id, pay) }
	case 2:
		return "NOTICE #c" + id + " :" + pay, func(c *client.Conn) { c.Notice("#c"+id, pay) }
	case 3:
		return "JOIN #c" + id, func(c *client.Conn) { c.Join("#c" + id) }
	case 4:
		w := "PRIVMSG #c" + id + " :\x01ACTION"
		if pay != "" {
			w += " " + pay
		}
		return w + "\x01", func(c *client.Conn) { c.Action("#c"+id, pay) }
	}
	return id + " raw " + pay, func(c *client.Conn) { c.Raw(id + " raw " + pay) }
}

func runC09(sc *c09Scenario) *Violation {
	old := runtime.GOMAXPROCS(sc.Procs)
	defer runtime.GOMAXPROCS(old)
	tc := newTestClient(cliOpts{Flood: true, Configure: func(cfg *client.Config) {
		if sc.StallMS > 0 {
			cfg.Timeout = 20 * time.Millisecond // "the duration before a connection timeout is triggered"
		}
	}})
	defer tc.shutdown()
	var wg sync.WaitGroup
	emit := func(g int) {
		s := &sc.Senders[g]
		for i := 0; i < s.N; i++ {
			_, call := c09Line(g, i, s)
			call(tc.C)
			if s.Yield > 0 && i%s.Yield == 0 {
				runtime.Gosched()
			}
		}
	}
	tc.C.HandleFunc("TRIG", func(c *client.Conn, l *client.Line) {
		var g int
		fmt.Sscanf(l.Text(), "%d", &g)
		// emit from a goroutine the handler owns so that the event loop (and the final PING) is not
		// held up by a full queue; order is still that of one issuing goroutine
		wg.Add(1)
		go func() { defer wg.Done(); emit(g) }()
	})
	if sc.Second {
		if err := tc.connect(); err != nil {
			return violationf("C09", "first connect: %v", err)
		}
		tc.conn().SendLine(":irc.server 001 me :Welcome")
		if !tc.syncOut(stallTimeout()) {
			return violationf("C09", "first connection: registration never completed")
		}
		done := make(chan struct{})
		go func() { tc.C.Close(); close(done) }()
		select {
		case <-done:
		case <-time.After(stallTimeout()):
			return violationf("C09", "first connection: Close did not return")
		}
		waitCond(stallTimeout(), func() bool { n, _, _ := connGoroutines(tc.C); return n == 0 })
		time.Sleep(time.Duration(sc.SecondGapMS) * time.Millisecond)
	}
	if err := tc.connect(); err != nil {
		return violationf("C09", "connect: %v", err)
	}
	conn := tc.conn()
	if !tc.syncOut(stallTimeout()) {
		return violationf("C09", "registration never completed")
	}
	base := len(conn.Written())
	if reg, _ := SplitCRLF(conn.Written()[:base]); len(reg) != 3 || reg[0] != "NICK me" || !strings.HasPrefix(reg[1], "USER ") || !strings.HasPrefix(reg[2], "PONG :vq") {
		return violationf("C09", "the connection's first outgoing lines are %q, want NICK, USER and the answer to the first PING, once each, in that order", reg)
	}
	conn.PartialWrites(true)
	if sc.Server != "fast" {
		conn.Gate(true)
	}
	if sc.StallMS > 0 {
		// a stall longer than Config.Timeout while lines are outstanding; the connection must stay up and
		// every line still arrive exactly once
		go func() {
			time.Sleep(300 * time.Microsecond)
			conn.Gate(true)
			time.Sleep(time.Duration(sc.StallMS) * time.Millisecond)
			if sc.Server == "fast" {
				conn.Gate(false)
			}
		}()
	}
	stop := make(chan struct{})
	if sc.Server != "fast" {
		go func() {
			for k := 0; ; k++ {
				select {
				case <-stop:
					return
				default:
				}
				n := sc.Pattern[k%len(sc.Pattern)]
				if sc.Server == "slow" {
					n = 1 + n%3
				}
				conn.Allow(n)
				if sc.Server == "bursty" {
					time.Sleep(time.Duration(50+10*(k%7)) * time.Microsecond)
				} else {
					runtime.Gosched()
				}
			}
		}()
	}
	if sc.Toggler {
		stopToggle := make(chan struct{})
		var tw sync.WaitGroup
		tw.Add(1)
		go func() {
			defer tw.Done()
			for i := 0; ; i++ {
				select {
				case <-stopToggle:
					return
				default:
				}
				if i%2 == 0 {
					tc.C.EnableStateTracking()
				} else {
					tc.C.DisableStateTracking()
				}
				_ = tc.C.Connected()
				runtime.Gosched()
			}
		}()
		defer func() {
			close(stopToggle)
			done := make(chan struct{})
			go func() { tw.Wait(); close(done) }()
			select {
			case <-done:
			case <-time.After(2 * time.Second): // stuck behind a lock the client never released: not this clean-up's business
			}
		}()
	}
	total := 0
	for g := range sc.Senders {
		total += sc.Senders[g].N
		if sc.Senders[g].Handler {
			conn.SendLine(fmt.Sprintf(":s!u@h TRIG me :%d", g))
			continue
		}
		g := g
		wg.Add(1)
		go func() { defer wg.Done(); emit(g) }()
	}
	// handler senders add themselves to wg from the event loop: wait for the triggers to be dispatched first
	if !tc.syncIn(stallTimeout()) {
		close(stop)
		return violationf("C09", "trigger lines never dispatched")
	}
	fin := make(chan struct{})
	go func() { wg.Wait(); close(fin) }()
	select {
	case <-fin:
	case <-time.After(stallTimeout()):
		close(stop)
		_, dump := goircGoroutines()
		return &Violation{Property: "C09", Msg: "senders never returned (queue not drained while the connection is up)", Detail: dump}
	}
	ok := tc.syncOut(stallTimeout())
	close(stop)
	conn.Gate(false)
	if !ok {
		return violationf("C09", "final PING never answered")
	}
	lines, rest := SplitCRLF(conn.Written()[base:])
	if rest != "" {
		return violationf("C09", "transcript does not end in CRLF: %q", tail(rest, 100))
	}
	want := map[string][2]int{}
	for g := range sc.Senders {
		for i := 0; i < sc.Senders[g].N; i++ {
			w, _ := c09Line(g, i, &sc.Senders[g])
			want[w] = [2]int{g, i}
		}
	}
	seen := map[string]int{}
	next := make([]int, len(sc.Senders))
	for _, l := range lines {
		if strings.HasPrefix(l, "PONG :vq") {
			continue
		}
		gi, ok := want[l]
		if !ok {
			return violationf("C09", "wire line was never issued (altered or invented): %q", tail(l, 120))
		}
		seen[l]++
		if seen[l] > 1 {
			return violationf("C09", "line written twice: %q", tail(l, 120))
		}
		if gi[1] != next[gi[0]] {
			return violationf("C09", "sender %d: line %d reached the wire when line %d was due (order within one goroutine broken or a line lost)", gi[0], gi[1], next[gi[0]])
		}
		next[gi[0]]++
	}
	if len(seen) != total {
		for w := range want {
			if seen[w] == 0 {
				return violationf("C09", "%d of %d issued lines never reached the wire, e.g. %q", total-len(seen), total, tail(w, 120))
			}
		}
	}
	return nil
}

func TestC09(t *testing.T) {
	col := evid.New("C09", "1..8 sender goroutines plus 0..3 handler-triggered senders each issuing 1..200 uniquely numbered lines (Raw, Privmsg, Notice, Join, Action; payload 0..400 bytes), server reading fast / slowly / in bursts through a write gate, GOMAXPROCS 1/2/4/16; wire transcript must be exactly the issued multiset with each sender's lines in issue order; non-trivial = >=2 concurrent senders and >32 lines in total; distinct by scenario")
	defer finish(t, col)
	rapid.Check(t, func(t *rapid.T) {
		sc := genC09(t)
		v := runC09(sc)
		total := 0
		hs := 0
		for _, s := range sc.Senders {
			total += s.N
			if s.Handler {
				hs++
			}
		}
		b, _ := json.Marshal(sc)
		col.Case(string(b), len(sc.Senders) >= 2 && total > 32, "server="+sc.Server, fmt.Sprintf("gomaxprocs=%d", sc.Procs), fmt.Sprintf("handler_senders=%d", hs))
		if total < 12 {
			col.Sample(sc)
		}
		if v != nil {
			failRapid(t, "TestC09", v, sc)
		}
	})
}

func TestC09_Replay(t *testing.T) {
	var sc c09Scenario
	loadReplay(t, &sc)
	n := envInt("VERIF_REPLAY_RUNS", 100)
	for i := 0; i < n; i++ {
		if v := runC09(&sc); v != nil {
			t.Fatalf("REPRODUCED (run %d of %d): %s", i+1, n, v.Msg)
		}
	}
}

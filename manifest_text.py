"""Human-written text for MANIFEST.json (kept apart from the run configuration)."""

NOTES = ("All checks are generated-input searches against explicit oracles (property-based testing, small-scope enumeration, "
         "native coverage-guided fuzzing). exit 0 = held on everything explored; exit 1 + VIOLATION line = violation; "
         "exit 2 = inconclusive (build or harness failure). Known and fixed findings are listed in known_findings.json.")

NOT_APPLICABLE = {}

TEXT = {
    "C01": {
        "technique": "property-based testing (rapid): grammar-directed generator + reference printer/expected-parse oracle; parser and live-connection legs",
        "level_text": "Generated well-formed messages (tags, all source forms, 0-14 middles, multi-space gaps, trailing, CTCP) are rendered by a reference printer; ParseLine, Text/Target/Public and the line a handler receives over a real connection are compared with the components the generator chose. Sampling, not proof: 20k cases quick, 2M thorough.",
        "level_note": "Trusted: the reference printer and expected-parse function in harness/props/c01_test.go (written from RFC 2812 2.3.1, the IRCv3 tag spec and line.go's doc comments). Inputs the statement leaves open are never generated.",
    },
    "C02": {
        "technique": "small-scope exhaustive enumeration over a special-atom alphabet + random/coverage-guided fuzzing + generated hostile sessions on a live connection",
        "level_text": "Every string of up to 4 (quick) / 5 (thorough) atoms from a 26-atom alphabet of all special bytes and handled verbs is parsed and probed with Text/Target/Public/Copy (exhaustive within that bound); random and coverage-guided strings go beyond it; live sessions mix every built-in verb with too few/empty/odd parameters (tracking and SASL on and off) with numbered well-formed lines that must all arrive in order; a process death in goirc code is attributed to the journalled session.",
        "level_note": "Exhaustive only within the stated atom bound; beyond it sampling. A handler panic recovered by Config.Recover is not a crash (C16's subject).",
    },
    "C08": {
        "technique": "property-based testing (rapid) + native fuzzing: hostile argument generator over all 28 command methods, wire-byte predicate oracle",
        "level_text": "Each exported command method is called with generated hostile strings in every fixed and variadic position and with all interesting SplitLen values; the bytes that call put on the wire (delimited by two unforgeable marker lines) must be whole CRLF-terminated lines free of CR/LF, each starting with the method's verb; Raw must write exactly the prefix before the first newline.",
        "level_note": "Trusted: the scripted server's transcript and the marker delimiting. Sampling (30k calls quick, 2.4M + fuzzing thorough).",
    },
    "C11": {
        "technique": "property-based testing (rapid) + native fuzzing: layout-directed text generator, lossless-split oracle on the wire",
        "level_text": "Texts of 0-8000 bytes laid out to hit each cut rule (sentence break, word break, hard cut, boundaries at SplitLen and multiples) are sent through every splitting method with every interesting SplitLen; the pieces read back from the wire must be bounded, carry the continuation marker, be non-empty and concatenate to the text.",
        "level_note": "Trusted: the wire transcript and the piece extraction in c11_test.go. Sampling; termination is checked with a 20 s stall bound per call.",
    },
    "C12": {
        "technique": "model-based testing: exhaustive closure of reachable model states over a small universe executed against the real tracker + long random histories (rapid), relational reference model as oracle",
        "level_text": "A relational reference model (sets of nicks/channels, membership relation with privileges) is explored breadth-first to closure over a small name universe; from every reachable state every operation (quick: every pair of operations) with every argument tuple, including the empty name and names in use, is executed on a real tracker rebuilt by replaying the shortest path, comparing every return value and the whole observable state. Random 10-300 step histories over a larger universe with full mode alphabets cover what the small universe cannot. Exhaustive within the stated universe (evidence reports states/edges and whether the frontier emptied), sampling beyond.",
        "level_note": "Trusted: harness/model/tracker.go. The closure reaches each model state by its shortest path only (hidden implementation state reachable only through longer histories is covered by the two-operation suffixes and the random histories, not exhaustively).",
    },
}

package props

import (
	"encoding/json"
	"fmt"
	"strings"
	"testing"
	"time"

	"verifharness/evid"

	"github.com/fluffle/goirc/client"
	"pgregory.net/rapid"
)

// ---------------------------------------------------------------------------
// C09, transient-write leg: one socket write takes part of a line and reports a
// transient error (an interrupted system call). Whether the client gives the
// connection up or carries on is its business; while the connection stays up
// the bytes on the wire are exactly the lines handed over, each once.
// ---------------------------------------------------------------------------

type c09Transient struct {
	Lines   int `json:"lines"`
	PayLen  int `json:"pay_len"`
	FaultAt int `json:"fault_at"` // the write call (counted from the first numbered line) that is cut short
	Taken   int `json:"taken"`    // bytes of it the socket accepted
}

func runC09Transient(sc *c09Transient) *Violation {
	tc := newTestClient(cliOpts{Flood: true})
	defer tc.shutdown()
	disc := make(chan struct{}, 2)
	tc.C.HandleFunc(client.DISCONNECTED, func(*client.Conn, *client.Line) { disc <- struct{}{} })
	if err := tc.connect(); err != nil {
		return violationf("C09", "connect: %v", err)
	}
	conn := tc.conn()
	if !tc.syncOut(stallTimeout()) {
		return violationf("C09", "registration never completed")
	}
	base := len(conn.Written())
	var want strings.Builder
	lines := make([]string, sc.Lines)
	for i := range lines {
		lines[i] = fmt.Sprintf("PRIVMSG #t :seq=%d %s", i, strings.Repeat("p", sc.PayLen))
		want.WriteString(lines[i] + "\r\n")
	}
	conn.ShortTempAt(sc.FaultAt, sc.Taken)
	sent := make(chan struct{})
	go func() {
		defer close(sent)
		for _, l := range lines {
			tc.C.Raw(l)
		}
	}()
	ended := false
	select {
	case <-sent:
	case <-disc:
		ended = true
	case <-time.After(stallTimeout()):
		_, dump := goircGoroutines()
		return &Violation{Property: "C09", Msg: "transient-write leg: the sender never returned although the connection is up", Detail: dump}
	}
	if !ended {
		// all lines were taken; either everything reaches the wire or the connection ends
		ok := tc.syncOut(stallTimeout())
		select {
		case <-disc:
			ended = true
		default:
		}
		if !ok && !ended && tc.C.Connected() {
			return violationf("C09", "transient-write leg: connection up but the final PING was never answered")
		}
		if !ok {
			ended = true
		}
	}
	if ended {
		// release a sender left blocked on the dead connection's queue (hygiene, not oracle)
		if q, ok := outQueue(tc.C); ok {
			drainQueue(q, 2*time.Second, func() bool {
				select {
				case <-sent:
					return true
				default:
					return false
				}
			})
		}
	}
	got := conn.Written()[base:]
	if i := strings.Index(got, "PONG :vq"); i >= 0 && !ended {
		got = got[:i]
	}
	w := want.String()
	if ended {
		// whatever was written before the client gave up is a beginning of what it was handed
		if !strings.HasPrefix(w, got) {
			return violationf("C09", "transient-write leg (write %d took %d bytes, then a transient error; the client hung up): the wire holds %q, not a beginning of the lines handed over", sc.FaultAt, sc.Taken, tail(got, 160))
		}
		return nil
	}
	if got != w {
		at := 0
		for at < len(got) && at < len(w) && got[at] == w[at] {
			at++
		}
		lo := at - 40
		if lo < 0 {
			lo = 0
		}
		hi := at + 80
		if hi > len(got) {
			hi = len(got)
		}
		return violationf("C09", "transient-write leg (write %d took %d bytes, then a transient error; the connection stayed up): the wire differs from the lines handed over at byte %d: ...%q", sc.FaultAt, sc.Taken, at, got[lo:hi])
	}
	return nil
}

func TestC09_Transient(t *testing.T) {
	col := evid.New("C09", "transient-write leg: 5..60 numbered lines from one goroutine, one socket write cut short after 0..n bytes with a transient (Temporary, not Timeout) error; oracle: if the connection stays up the wire equals the lines handed over byte for byte, if the client hangs up the wire is a beginning of them; non-trivial = the cut write took at least one byte; distinct by scenario")
	defer finish(t, col)
	rapid.Check(t, func(t *rapid.T) {
		sc := &c09Transient{Lines: rapid.IntRange(5, 60).Draw(t, "lines"), PayLen: rapid.SampledFrom([]int{0, 10, 100, 400}).Draw(t, "pay_len")}
		sc.FaultAt = rapid.IntRange(1, sc.Lines).Draw(t, "fault_at")
		sc.Taken = rapid.SampledFrom([]int{0, 1, 6, 19, 1000}).Draw(t, "taken")
		v := runC09Transient(sc)
		b, _ := json.Marshal(sc)
		col.Case(string(b), sc.Taken > 0, fmt.Sprintf("taken=%d", sc.Taken))
		col.Sample(sc)
		if v != nil {
			failRapid(t, "TestC09_Transient", v, sc)
		}
	})
}

func TestC09_Transient_Replay(t *testing.T) {
	var sc c09Transient
	loadReplay(t, &sc)
	if v := runC09Transient(&sc); v != nil {
		t.Fatalf("REPRODUCED %s", v.Msg)
	}
}

package props

import (
	"fmt"
	"strings"
	"sync"
	"testing"
	"time"

	"verifharness/evid"

	"github.com/fluffle/goirc/client"
	"pgregory.net/rapid"
)

// ---------------------------------------------------------------------------
// C10 leg B: real clock, on the wire
// ---------------------------------------------------------------------------

type c10Line struct {
	Len   int `json:"len"`    // payload length; the wire line is "L <k> <payload>"
	GapMS int `json:"gap_ms"` // idle time before the line is issued
}

type c10Scenario struct {
	FloodOff bool      `json:"flood_setting"` // Config.Flood = true from the start: no line may be delayed
	ToggleAt int       `json:"toggle_at"`     // >=0: Config.Flood is set to true before this line (after the queue drained)
	OffAt    int       `json:"off_at"`        // > ToggleAt: Config.Flood is set back to false before this line; -1 never
	Wide        bool   `json:"wide"`          // payload made of three-byte characters
	ReconnectAt int    `json:"reconnect_at"`  // >=0: before this line the client is closed and connects again at once (the penalty is the client's, not the connection's)
	// HoldCloseAt >= 0: the line with this index must be held back by construction; while it is, the client is
	// closed (the line is lost), idles HoldIdleMS, connects again, and the remaining lines follow
	HoldCloseAt int `json:"hold_close_at"`
	HoldIdleMS  int `json:"hold_idle_ms"`
	// NPings > 0: right after line PingsAfter was issued the server sends this many PINGs; the answers are
	// outgoing lines like any other
	PingsAfter int `json:"pings_after"`
	NPings     int `json:"n_pings"`
	// CapNeg: capability negotiation is enabled, so registration is CAP LS, NICK, USER, and the server of
	// this scenario never answers any of it (no capability list, no welcome): lines sent meanwhile are
	// charged and held back like any other
	CapNeg bool      `json:"cap_negotiation,omitempty"`
	// PassLen > 0: the client has a connection password of this many bytes, so registration starts with a
	// PASS line that is charged for its real length like any other line
	PassLen int `json:"pass_len,omitempty"`
	Lines  []c10Line `json:"lines"`

	createdLo, createdHi time.Time // set by the run: when the client (and with it the penalty clock) was created
}

type c10Obs struct {
	line   string
	chars  int
	enq    time.Time // just before the call that queued the line
	wire   time.Time // stamped inside the socket Write
	exempt bool      // issued while Config.Flood was true
	ghost  bool      // accounted (it was being held back) but never written: the connection was closed under it
}

func charge(chars int) time.Duration {
	return 2*time.Second + time.Duration(chars)*time.Second/120
}

const c10Slack = 1500 * time.Millisecond // scheduling tolerance for "not held back" (the smallest possible hold-back is 2 s)
const c10Tol = 250 * time.Millisecond    // stated tolerance of the window bound (gap between accounting and the write)

func genC10(t *rapid.T, maxLines int, idx int) *c10Scenario {
	// the composition of a batch is fixed: every sixth scenario has Flood set, every sixth toggles it
	sc := &c10Scenario{ToggleAt: -1, OffAt: -1, ReconnectAt: -1, HoldCloseAt: -1, FloodOff: idx%6 == 5, Wide: idx%2 == 1}
	n := rapid.IntRange(3, maxLines).Draw(t, "nlines")
	for i := 0; i < n; i++ {
		sc.Lines = append(sc.Lines, c10Line{Len: rapid.SampledFrom([]int{0, 1, 50, 120, 300, 500}).Draw(t, "len"), GapMS: rapid.SampledFrom([]int{0, 0, 0, 500, 2500, 6000}).Draw(t, "gap_ms")})
	}
	sc.CapNeg = idx%6 == 1
	if idx%12 == 0 {
		// CAP LS, NICK, USER and a 400-byte line bring the penalty to 11.7 s: the second 400-byte line must
		// be held back for its 5.36 s although the server has not welcomed the client yet
		sc.CapNeg = true
		sc.Lines = []c10Line{{Len: 400}, {Len: 400}, {Len: 1}}
		return sc
	}
	if idx%12 == 7 {
		// PASS with a 400-byte password (5.38 s), NICK, USER: 9.6 s; a 120-byte line (3.0 s) takes the penalty
		// past 10 s and must be held back for its own 3 s; the line after it as well
		sc.CapNeg = false
		sc.PassLen = 400
		sc.Lines = []c10Line{{Len: 120}, {Len: 1}}
		return sc
	}
	if idx%12 == 8 {
		// NICK, USER and three 120-byte lines: the second is held back (3 s), the third would be next; the
		// client is closed while the third is being held, idles until NICK and USER of the next connection are
		// certainly free again, and then sends a 500-byte line that certainly is not
		sc.Lines = []c10Line{{Len: 120}, {Len: 120}, {Len: 120}, {Len: 500}}
		sc.HoldCloseAt, sc.HoldIdleMS = 2, 5000
		return sc
	}
	// The two shapes below are fixed rather than drawn: with 400-byte lines (charge 5.36 s) the replayed
	// penalty is far enough from the 10 s threshold at every decision for the 1.5 s scheduling slack
	// not to blur it (drawn lengths made these shapes decide nothing in most batches).
	if idx%12 == 9 {
		// the server PINGs six times while the penalty is saturated: the six PONGs are charged and held
		// back like every other line
		sc.Lines = []c10Line{{Len: 400}, {Len: 400}, {Len: 1}}
		sc.PingsAfter, sc.NPings = 1, 6
		return sc
	}
	if idx%6 == 2 {
		// build a penalty (the second line is held back, the third too), drop the connection, reconnect at
		// once: registration and what follows are still charged against the same penalty
		sc.Lines = []c10Line{{Len: 400}, {Len: 400}, {Len: 1}, {Len: 1}}
		sc.ReconnectAt = 3
		return sc
	}
	if idx%6 == 3 || idx%6 == 4 {
		if idx%6 == 4 {
			// build a penalty, idle or not, send one line with Flood set, switch it off again, send more:
			// with an idle period the lines after the toggle must NOT be held (the idle time counts as
			// decay); without one they MUST be held (the penalty is still there)
			sc.Lines = []c10Line{{Len: 400}, {Len: 400}, {Len: 10, GapMS: []int{0, 6000}[(idx/6)%2]}, {Len: 1}, {Len: 50}}
			sc.ToggleAt, sc.OffAt = 2, 3
			return sc
		}
		sc.ToggleAt = rapid.IntRange(1, n-1).Draw(t, "toggle_at")
		if sc.ToggleAt+1 < n && rapid.IntRange(0, 2).Draw(t, "toggle_back") > 0 {
			sc.OffAt = rapid.IntRange(sc.ToggleAt+1, n-1).Draw(t, "off_at")
		}
	}
	return sc
}

// runC10One executes one scenario and returns the observations for all lines
// on the wire (registration lines included) in wire order.
func runC10One(sc *c10Scenario) ([]c10Obs, *Violation) {
	tc := newTestClient(cliOpts{Flood: sc.FloodOff, Configure: func(cfg *client.Config) {
		cfg.EnableCapabilityNegotiation = sc.CapNeg
		cfg.Pass = strings.Repeat("w", sc.PassLen)
	}})
	nreg := 2
	if sc.CapNeg {
		nreg++
	}
	if sc.PassLen > 0 {
		nreg++
	}
	sc.createdLo, sc.createdHi = tc.CreatedLo, tc.CreatedHi
	defer tc.shutdown()
	var mu sync.Mutex
	enq := map[string]time.Time{}
	exempt := map[string]bool{}
	regStart := time.Now()
	if err := tc.connect(); err != nil {
		return nil, violationf("C10", "connect: %v", err)
	}
	conn := tc.conn()
	total := nreg
	heldLine := ""
	regStarts := []time.Time{regStart}
	disc := make(chan struct{}, 2)
	tc.C.HandleFunc(client.DISCONNECTED, func(*client.Conn, *client.Line) { disc <- struct{}{} })
	waitWire := func(n int) bool {
		return conn.WaitWritten(func(w string) bool { return strings.Count(w, "\r\n") >= n }, 5*time.Minute)
	}
	for k, l := range sc.Lines {
		if k == sc.ToggleAt && l.GapMS > 0 {
			// the idle period of the toggle shapes is counted from the last write, not from the last call
			if !waitWire(total) {
				return nil, violationf("C10", "queue did not drain before the idle period")
			}
		}
		if l.GapMS > 0 {
			time.Sleep(time.Duration(l.GapMS) * time.Millisecond)
		}
		if k == sc.ReconnectAt {
			if !waitWire(total) {
				return nil, violationf("C10", "queue did not drain before the reconnect")
			}
			go tc.C.Close()
			select {
			case <-disc:
			case <-time.After(stallTimeout()):
				return nil, violationf("C10", "no DISCONNECTED before the reconnect")
			}
			waitCond(stallTimeout(), func() bool { n, _, _ := connGoroutines(tc.C); return n == 0 })
			regStarts = append(regStarts, time.Now())
			if err := tc.connect(); err != nil {
				return nil, violationf("C10", "reconnect: %v", err)
			}
			conn = tc.conn()
			total = nreg
		}
		if sc.HoldCloseAt >= 0 && k == sc.HoldCloseAt+1 {
			// everything but the last line issued is on the wire; that one is being held back
			if !waitWire(total - 1) {
				return nil, violationf("C10", "lines before the held one never reached the wire")
			}
			time.Sleep(c10Slack + 100*time.Millisecond) // its accounting has certainly happened by now
			go tc.C.Close()
			select {
			case <-disc:
			case <-time.After(stallTimeout()):
				return nil, violationf("C10", "no DISCONNECTED when the client was closed while a line was held back")
			}
			waitCond(stallTimeout(), func() bool { n, _, _ := connGoroutines(tc.C); return n == 0 })
			time.Sleep(time.Duration(sc.HoldIdleMS) * time.Millisecond)
			regStarts = append(regStarts, time.Now())
			if err := tc.connect(); err != nil {
				return nil, violationf("C10", "reconnect: %v", err)
			}
			conn = tc.conn()
			total = nreg
		}
		if k == sc.ToggleAt {
			if !waitWire(total) {
				return nil, violationf("C10", "queue did not drain before the Flood toggle")
			}
			tc.C.Config().Flood = true
		}
		if k == sc.OffAt && sc.OffAt > sc.ToggleAt && sc.ToggleAt >= 0 {
			if !waitWire(total) {
				return nil, violationf("C10", "queue did not drain before Flood was switched back off")
			}
			tc.C.Config().Flood = false
		}
		unit := "x"
		if sc.Wide {
			unit = "\u65e5" // three bytes per character
		}
		line := fmt.Sprintf("L %d %s", k, strings.Repeat(unit, l.Len/len(unit)))
		mu.Lock()
		enq[line] = time.Now()
		exempt[line] = sc.FloodOff || (sc.ToggleAt >= 0 && k >= sc.ToggleAt && !(sc.OffAt > sc.ToggleAt && k >= sc.OffAt))
		mu.Unlock()
		if k == sc.HoldCloseAt {
			heldLine = line
		}
		tc.C.Raw(line)
		total++
		if sc.NPings > 0 && k == sc.PingsAfter {
			time.Sleep(300 * time.Millisecond)
			for p := 0; p < sc.NPings; p++ {
				tok := fmt.Sprintf("c10p%d", p)
				mu.Lock()
				enq["PONG :"+tok] = time.Now()
				mu.Unlock()
				conn.SendLine("PING :" + tok)
				total++
			}
		}
	}
	if !waitWire(total) {
		return nil, violationf("C10", "only %d of %d lines reached the wire within 5 minutes", strings.Count(conn.Written(), "\r\n"), total)
	}
	var obs []c10Obs
	written := map[string]bool{}
	for ci, cn := range tc.S.Conns() {
		for _, w := range cn.Writes() {
			for _, l := range strings.Split(strings.TrimSuffix(w.Data, "\r\n"), "\r\n") {
				o := c10Obs{line: l, chars: len(l), wire: w.At, enq: regStarts[ci%len(regStarts)], exempt: sc.FloodOff}
				if e, ok := enq[l]; ok {
					o.enq, o.exempt = e, exempt[l]
				}
				obs = append(obs, o)
				written[l] = true
			}
		}
		if ci == 0 && heldLine != "" && !written[heldLine] {
			// the line the first connection was closed under: charged, never written
			obs = append(obs, c10Obs{line: heldLine, chars: len(heldLine), enq: enq[heldLine], ghost: true})
		}
	}
	return obs, nil
}

// checkC10 applies the oracle to one scenario's observations.
func checkC10(sc *c10Scenario, obs []c10Obs) (held, free int, v *Violation) {
	describe := func(k int) string {
		return fmt.Sprintf("line %d (%d chars, charge %v)", k, obs[k].chars, charge(obs[k].chars))
	}
	// (iv) lines issued with Flood set are never delayed
	for k, o := range obs {
		if !o.exempt || o.ghost {
			continue
		}
		ready := o.enq
		if k > 0 && obs[k-1].wire.After(ready) {
			ready = obs[k-1].wire
		}
		if d := o.wire.Sub(ready); d > c10Slack {
			return held, free, violationf("C10", "Flood is set but %s was delayed by %v", describe(k), d)
		}
	}
	n := len(obs)
	// (i) window bound, delay-independent, over every run of consecutive rate-limited lines
	for i := 0; i < n; i++ {
		if obs[i].ghost {
			continue
		}
		var sum time.Duration
		for j := i; j < n && !obs[j].exempt; j++ {
			if obs[j].ghost {
				continue // never written: it only makes the real penalty larger
			}
			sum += charge(obs[j].chars)
			window := obs[j].wire.Sub(obs[i].wire)
			if bound := window + 10*time.Second + charge(obs[i].chars) + charge(obs[j].chars) + c10Tol; sum > bound {
				return held, free, violationf("C10", "lines %d..%d: total charge %v exceeds the time between their writes (%v) by more than 10s plus two lines' charges (bound %v)", i, j, sum, window, bound)
			}
		}
	}
	// (ii)/(iii) replay Hybrid's rule with interval arithmetic over the accounting instants. Lines
	// issued while Flood is set are neither charged nor do they stop the penalty from decaying.
	var blo, bhi time.Duration
	var rlo, rhi time.Time // bounds on the previous accounting instant
	first := true
	for k := 0; k < n; k++ {
		o := obs[k]
		if o.exempt {
			continue
		}
		ready := o.enq
		for p := k - 1; p >= 0; p-- {
			if !obs[p].ghost {
				if obs[p].wire.After(ready) {
					ready = obs[p].wire
				}
				break
			}
		}
		if o.ghost {
			o.wire = ready.Add(c10Slack) // stands for "accounted within the slack of becoming ready"
		}
		L := charge(o.chars)
		// this line's accounting happens after it became ready and before it was written; it is
		// assumed to happen within the scheduling slack of becoming ready (the same assumption the
		// "not held back" direction makes), otherwise a held-back line could never be told from a stall
		alo, ahi := ready, o.wire
		if ahi.Before(alo) {
			alo = ahi
		}
		if lim := alo.Add(c10Slack); lim.Before(ahi) {
			ahi = lim
		}
		var elLo, elHi time.Duration
		if first {
			// the clock of the penalty started when the client was created, some time before Connect
			elLo, elHi = alo.Sub(sc.createdHi), ahi.Sub(sc.createdLo)
			if elLo < 0 {
				elLo = 0
			}
			first = false
		} else {
			elLo, elHi = alo.Sub(rhi), ahi.Sub(rlo)
			if elLo < 0 {
				elLo = 0
			}
		}
		nlo, nhi := blo+L-elHi, bhi+L-elLo
		if nlo < 0 {
			nlo = 0
		}
		if nhi < 0 {
			nhi = 0
		}
		delay := o.wire.Sub(ready)
		switch {
		case o.ghost:
			// no verdict on a line that never reached the wire
		case nlo > 10*time.Second:
			held++
			if delay < L {
				return held, free, violationf("C10", "%s: penalty is at least %v > 10s but the line was written after only %v (it must be held back for its own charge)", describe(k), nlo, delay)
			}
			// the sleep started at the accounting instant and lasted at least L
			if t := o.wire.Add(-L); t.Before(ahi) {
				ahi = t
			}
		case nhi <= 10*time.Second:
			free++
			if delay > c10Slack {
				return held, free, violationf("C10", "%s: penalty is at most %v <= 10s but the line was written %v after it could have been (held back although the penalty does not exceed 10s)", describe(k), nhi, delay)
			}
		}
		blo, bhi = nlo, nhi
		rlo, rhi = alo, ahi
	}
	return held, free, nil
}

func runC10Batch(batch []*c10Scenario) (nontrivial []bool, v *Violation) {
	type res struct {
		i   int
		obs []c10Obs
		v   *Violation
	}
	out := make(chan res, len(batch))
	for i, sc := range batch {
		i, sc := i, sc
		go func() {
			obs, v := runC10One(sc)
			out <- res{i, obs, v}
		}()
	}
	nontrivial = make([]bool, len(batch))
	for range batch {
		r := <-out
		if r.v != nil && v == nil {
			v = r.v
		}
		if r.v != nil {
			continue
		}
		held, free, cv := checkC10(batch[r.i], r.obs)
		nontrivial[r.i] = held > 0 && free > 0
		if cv != nil && !strings.Contains(cv.Msg, "total charge") {
			// a timing verdict (unlike the window bound) could be caused by a stall of this process:
			// it counts only if the same scenario fails again when run on its own
			if obs2, v2 := runC10One(batch[r.i]); v2 == nil {
				if _, _, cv2 := checkC10(batch[r.i], obs2); cv2 == nil {
					cv = nil
				} else {
					cv, r.obs = cv2, obs2
				}
			}
		}
		if cv != nil && v == nil {
			cv.Detail = map[string]interface{}{"scenario": batch[r.i], "writes": describeObs(r.obs)}
			v = cv
		}
	}
	return nontrivial, v
}

func describeObs(obs []c10Obs) []string {
	var out []string
	for k, o := range obs {
		base := obs[0].wire
		out = append(out, fmt.Sprintf("%d: %d chars enq=%+.3fs wire=%+.3fs exempt=%v", k, o.chars, o.enq.Sub(base).Seconds(), o.wire.Sub(base).Seconds(), o.exempt))
	}
	return out
}

func TestC10_Wire(t *testing.T) {
	col := evid.New("C10", "real clock: fresh clients with default configuration issue 3..N lines of drawn lengths after drawn idle gaps (0 / 0.5 / 2.5 / 6 s); variants with Config.Flood set from the start or toggled on midway; scenarios of a batch run concurrently (they only sleep). Oracle from the socket-write timestamps: window bound, held back when the replayed penalty must exceed 10 s, not held back when it cannot; non-trivial = scenario has at least one line that must be held back and one that must not; distinct by scenario")
	defer finish(t, col)
	batchSize := envInt("VERIF_C10_BATCH", 12)
	maxLines := envInt("VERIF_C10_MAXLINES", 8)
	rapid.Check(t, func(t *rapid.T) {
		var batch []*c10Scenario
		for i := 0; i < batchSize; i++ {
			batch = append(batch, genC10(t, maxLines, i))
		}
		nt, v := runC10Batch(batch)
		for i, sc := range batch {
			cls := []string{"rate_limited"}
			if sc.FloodOff {
				cls = []string{"flood_set"}
			} else if sc.ToggleAt >= 0 {
				cls = []string{"flood_toggled"}
			}
			col.Case(fmt.Sprintf("%+v", *sc), nt[i], cls...)
			if len(sc.Lines) <= 4 {
				col.Sample(sc)
			}
		}
		if v != nil {
			failRapid(t, "TestC10_Wire", v, batch)
		}
	})
}

func TestC10_Wire_Replay(t *testing.T) {
	var batch []*c10Scenario
	loadReplay(t, &batch)
	if _, v := runC10Batch(batch); v != nil {
		t.Fatalf("REPRODUCED %s", v.Msg)
	}
}

var _ = client.PING

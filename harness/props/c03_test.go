package props

import (
	"errors"
	"fmt"
	"runtime"
	"sort"
	"strings"
	"sync"
	"sync/atomic"
	"testing"
	"time"

	"verifharness/evid"
	"verifharness/ircsim"

	"github.com/fluffle/goirc/client"
	"pgregory.net/rapid"
)

// ---------------------------------------------------------------------------
// handler history recording (shared by C03, C04, C05, C15, C16)
// ---------------------------------------------------------------------------

type hEvent struct {
	Tick    int64  `json:"tick"`
	Enter   bool   `json:"enter"`
	Seq     int    `json:"seq"`
	Handler string `json:"handler"`
	Note    string `json:"note,omitempty"`
}

type hLog struct {
	tick atomic.Int64
	mu   sync.Mutex
	ev   []hEvent
}

func (h *hLog) add(enter bool, seq int, handler, note string) int64 {
	// the tick is taken under the mutex so that tick order == append order
	h.mu.Lock()
	tk := h.tick.Add(1)
	h.ev = append(h.ev, hEvent{Tick: tk, Enter: enter, Seq: seq, Handler: handler, Note: note})
	h.mu.Unlock()
	return tk
}

func (h *hLog) snapshot() []hEvent {
	h.mu.Lock()
	defer h.mu.Unlock()
	return append([]hEvent(nil), h.ev...)
}

// behave executes a drawn handler behaviour: 0 return at once, 1 yield k
// times, 2 sleep k microseconds.
func behave(kind, k int) {
	switch kind {
	case 1:
		for i := 0; i < k; i++ {
			runtime.Gosched()
		}
	case 2:
		time.Sleep(time.Duration(k) * time.Microsecond)
	}
}

// ---------------------------------------------------------------------------
// C03
// ---------------------------------------------------------------------------

type c03Handler struct {
	Kind int `json:"kind"`
	K    int `json:"k"`
}

type c03Scenario struct {
	Verbs      []string                `json:"verbs"`    // verb of each line; "001" marks the welcome
	LongAt     int                     `json:"long_at"`  // index of a line padded beyond 4096 bytes, -1 none
	Handlers   map[string][]c03Handler `json:"handlers"` // per verb
	Cuts       []int                   `json:"cuts"`     // segmentation of the phase-1 byte stream
	Unread     int                     `json:"unread"`   // trailing lines sent right before the disconnect
	Cause      string                  `json:"cause"`    // eof, readerr, close, temperr (a transient read error in the middle of a long line)
	Procs      int                     `json:"gomaxprocs"`
	WelcomeNew bool                    `json:"welcome_new_nick"`
	Cycles     int                     `json:"cycles"` // the same client runs the session again after reconnecting (0/1 = once)
	// the application lowers Config().Timeout on the live client to this many milliseconds (0: leaves the default)
	TimeoutMS int `json:"timeout_ms"`
	// the socket's Close reports an error at teardown (it is closed all the same)
	CloseFails bool `json:"close_fails"`
}

// c03Panic is what a handler of kind 3 panics with; the application's Config.Recover callback does some
// work of its own (K yields / microseconds, as drawn) before the invocation is over.
type c03Panic struct {
	seq  int
	name string
	log  *hLog
	k    int
}

// message verbs, a numeric, an unknown verb, and verbs that also have built-in internal handlers
// (and the verbs a server uses when a link is about to end or that a client might be tempted to treat out of band)
var c03Verbs = []string{"PRIVMSG", "NOTICE", "372", "CUSTOM", "PING", "CAP", "433", "NICK", "ERROR", "PONG", "QUIT", "KILL", "AUTHENTICATE", "904"}

func genC03(t *rapid.T) *c03Scenario {
	sc := &c03Scenario{LongAt: -1, Handlers: map[string][]c03Handler{}}
	n := rapid.IntRange(5, 150).Draw(t, "nlines")
	if rapid.IntRange(0, 2).Draw(t, "short") > 0 {
		n = rapid.IntRange(5, 30).Draw(t, "nlines_short")
	}
	wpos := rapid.IntRange(0, n-1).Draw(t, "welcome_pos")
	for i := 0; i < n; i++ {
		if i == wpos {
			sc.Verbs = append(sc.Verbs, "001")
		} else {
			sc.Verbs = append(sc.Verbs, rapid.SampledFrom(c03Verbs).Draw(t, "verb"))
		}
	}
	if rapid.IntRange(0, 4).Draw(t, "has_long") == 0 {
		sc.LongAt = rapid.IntRange(0, n-1).Draw(t, "long_at")
		if sc.LongAt == wpos {
			sc.LongAt = -1
		}
	}
	for _, v := range append([]string{"001"}, c03Verbs...) {
		k := rapid.IntRange(1, 4).Draw(t, "nhandlers")
		for i := 0; i < k; i++ {
			h := c03Handler{Kind: rapid.IntRange(0, 2).Draw(t, "hkind")}
			if rapid.IntRange(0, 7).Draw(t, "panics") == 0 {
				h.Kind = 3
				h.K = rapid.SampledFrom([]int{0, 50, 500}).Draw(t, "recover_us")
			}
			switch h.Kind {
			case 1:
				h.K = rapid.IntRange(1, 20).Draw(t, "yields")
			case 2:
				h.K = rapid.SampledFrom([]int{10, 50, 100, 500, 10, 50, 100, 500, 10, 4000}).Draw(t, "sleep_us") // (4 ms outlasts a lowered Config().Timeout)
			}
			sc.Handlers[v] = append(sc.Handlers[v], h)
		}
	}
	ncuts := rapid.IntRange(0, 3*n).Draw(t, "ncuts")
	switch rapid.IntRange(0, 4).Draw(t, "cut_mode") {
	case 0:
		ncuts = 0 // everything in one read
	case 1:
		sc.Cuts = []int{-1} // one byte per read
		ncuts = 0
	}
	for i := 0; i < ncuts; i++ {
		sc.Cuts = append(sc.Cuts, rapid.IntRange(1, 60*n).Draw(t, "cut"))
	}
	sort.Ints(sc.Cuts)
	sc.Unread = rapid.IntRange(0, 20).Draw(t, "unread")
	sc.Cause = rapid.SampledFrom([]string{"eof", "readerr", "close", "temperr"}).Draw(t, "cause")
	sc.Procs = rapid.SampledFrom([]int{1, 2, 4, 16}).Draw(t, "gomaxprocs")
	sc.WelcomeNew = rapid.Bool().Draw(t, "welcome_new")
	sc.Cycles = rapid.SampledFrom([]int{1, 1, 2}).Draw(t, "cycles")
	sc.TimeoutMS = rapid.SampledFrom([]int{0, 0, 1, 3}).Draw(t, "timeout_ms")
	sc.CloseFails = rapid.IntRange(0, 3).Draw(t, "close_fails") == 0
	return sc
}

func c03Wire(verb string, seq int, long bool, nick string) string {
	if verb == "001" {
		return fmt.Sprintf(":irc.server 001 %s :Welcome %d", nick, seq)
	}
	pad := ""
	if long {
		// 5000 .. 20000 bytes, beyond one and two read buffers, made of blank-separated tokens: whatever
		// fragment of it might wrongly be taken for a line of its own parses as an event named "7"
		pad = " " + strings.Repeat("7 ", 2500+(seq%4)*2500) + "7"
	}
	return fmt.Sprintf(":src!u@h %s tgt :%d%s", verb, seq, pad)
}

func seqOf(l *client.Line) int {
	var n int
	txt := l.Text()
	if i := strings.LastIndex(txt, " "); l.Cmd == "001" && i >= 0 {
		txt = txt[i+1:]
	} else if i := strings.Index(txt, " "); i >= 0 {
		txt = txt[:i]
	}
	fmt.Sscanf(txt, "%d", &n)
	return n
}

func runC03(sc *c03Scenario) *Violation {
	old := runtime.GOMAXPROCS(sc.Procs)
	defer runtime.GOMAXPROCS(old)
	tc := newTestClient(cliOpts{Flood: true, Nick: "me"})
	defer tc.release()
	var curLog atomic.Pointer[hLog]
	curLog.Store(&hLog{})
	welcomeNick := "me"
	if sc.WelcomeNew {
		welcomeNick = "me2"
	}
	var meInConnected atomic.Value
	for verb, hs := range sc.Handlers {
		for i, h := range hs {
			h, name := h, fmt.Sprintf("%s#%d", verb, i)
			tc.C.HandleFunc(verb, func(c *client.Conn, l *client.Line) {
				s := seqOf(l)
				log := curLog.Load()
				log.add(true, s, name, "")
				if h.Kind == 3 {
					panic(c03Panic{seq: s, name: name, log: log, k: h.K})
				}
				behave(h.Kind, h.K)
				log.add(false, s, name, "")
			})
		}
	}
	// the application's own panic recovery, installed on the existing client: the invocation of a
	// panicking handler is over when this callback returns
	tc.C.Config().Recover = func(c *client.Conn, l *client.Line) {
		if e := recover(); e != nil {
			if p, ok := e.(c03Panic); ok {
				behave(2, p.k)
				p.log.add(false, p.seq, p.name, "recovered")
				return
			}
			panic(e)
		}
	}
	tc.C.HandleFunc("7", func(c *client.Conn, l *client.Line) {
		curLog.Load().add(true, -7, "PHANTOM", l.Raw[:min(len(l.Raw), 40)])
	})
	wseq := -1
	for i, v := range sc.Verbs {
		if v == "001" {
			wseq = i + 1
		}
	}
	tc.C.HandleFunc(client.CONNECTED, func(c *client.Conn, l *client.Line) {
		log := curLog.Load()
		log.add(true, wseq, "CONNECTED", "")
		meInConnected.Store(c.Me().Nick)
		behave(1, 3)
		log.add(false, wseq, "CONNECTED", "")
	})
	discDone := make(chan struct{}, 8)
	tc.C.HandleFunc(client.DISCONNECTED, func(c *client.Conn, l *client.Line) {
		curLog.Load().add(true, 1<<30, "DISCONNECTED", "")
		discDone <- struct{}{}
	})
	cycles := sc.Cycles
	if cycles < 1 {
		cycles = 1
	}
	for cycle := 0; cycle < cycles; cycle++ {
		if cycle > 0 {
			// the same client, a new connection: nothing of the previous one may leak into it
			if !waitCond(stallTimeout(), func() bool { n, _, _ := connGoroutines(tc.C); return n == 0 }) {
				return violationf("C03", "goroutines of the previous connection still present before the reconnect")
			}
			curLog.Store(&hLog{})
		}
		if v := runC03Cycle(sc, tc, &curLog, discDone, welcomeNick, wseq, &meInConnected); v != nil {
			if cycle > 0 {
				v.Msg = fmt.Sprintf("second connection of the same client: %s", v.Msg)
			}
			return v
		}
	}
	return nil
}

func runC03Cycle(sc *c03Scenario, tc *testClient, curLog *atomic.Pointer[hLog], discDone chan struct{}, welcomeNick string, wseq int, meInConnected *atomic.Value) *Violation {
	if err := tc.connect(); err != nil {
		return violationf("C03", "connect: %v", err)
	}
	if sc.TimeoutMS > 0 {
		tc.C.Config().Timeout = time.Duration(sc.TimeoutMS) * time.Millisecond
	}
	log := curLog.Load()
	conn := tc.conn()
	if sc.CloseFails {
		conn.FailClose(errors.New("close: broken pipe"))
	}
	total := len(sc.Verbs)
	acked := total - sc.Unread
	if acked < 0 {
		acked = 0
	}
	var stream strings.Builder
	for i := 0; i < acked; i++ {
		stream.WriteString(c03Wire(sc.Verbs[i], i+1, i == sc.LongAt, welcomeNick) + "\r\n")
	}
	data := stream.String()
	if len(sc.Cuts) == 1 && sc.Cuts[0] == -1 {
		cuts := make([]int, 0, len(data))
		for i := 1; i < len(data); i++ {
			cuts = append(cuts, i)
		}
		conn.SendSegmented(data, cuts)
	} else {
		conn.SendSegmented(data, sc.Cuts)
	}
	if !tc.syncIn(stallTimeout()) {
		_, dump := goircGoroutines()
		return &Violation{Property: "C03", Msg: "marker after the acknowledged lines never delivered", Detail: dump}
	}
	// unread tail, then the disconnect
	var tailb strings.Builder
	for i := acked; i < total; i++ {
		tailb.WriteString(c03Wire(sc.Verbs[i], i+1, false, welcomeNick) + "\r\n")
	}
	if sc.Cause == "temperr" {
		// one more line, a long one, reaches the client in two reads with a transient error between them.
		// The client may give the connection up there (then nothing more is delivered) or carry on; what
		// it must not do is take the second part for a line of its own.
		long := c03Wire("CUSTOM", total+1, true, welcomeNick)
		cut := len(long) - 101 // inside the padding, at the start of a token
		tailb.WriteString(long[:cut])
		conn.Send(tailb.String())
		conn.SendErrOnce(ircsim.TempError{})
		conn.Send(long[cut:] + "\r\n")
		if !waitCond(300*time.Millisecond, func() bool { return !tc.C.Connected() }) {
			go tc.C.Close()
		}
	} else {
		conn.Send(tailb.String())
	}
	switch sc.Cause {
	case "eof":
		conn.EOF()
	case "readerr":
		conn.FailRead(ircsim.ReadError(len(sc.Verbs)), false) // (plain / timed out / reset / unexpected EOF, by scenario)
	case "close":
		go tc.C.Close()
	}
	select {
	case <-discDone:
	case <-time.After(stallTimeout()):
		_, dump := goircGoroutines()
		return &Violation{Property: "C03", Msg: "DISCONNECTED never delivered after " + sc.Cause, Detail: dump}
	}
	// let any (wrongly) late handler show up
	waitCond(2*time.Second, func() bool { n, _ := goircGoroutines(); return n == 0 })
	ev := log.snapshot()

	// ---- oracle ----
	type span struct{ enter, exit int64 }
	perSeq := map[int][]span{}
	open := map[string]int64{}
	lastEnterSeq := 0
	var discTick int64 = -1
	for _, e := range ev {
		if e.Handler == "PHANTOM" {
			return violationf("C03", "an event named \"7\" was dispatched (%q...): no such line was sent - a piece of a long line was taken for a line of its own", e.Note)
		}
		if e.Handler == "DISCONNECTED" {
			if discTick < 0 {
				discTick = e.Tick // the first one counts: nothing may run after it
			}
			continue
		}
		key := fmt.Sprintf("%d/%s", e.Seq, e.Handler)
		if e.Enter {
			if e.Handler != "CONNECTED" {
				if e.Seq < lastEnterSeq {
					return violationf("C03", "line %d entered handler %s after line %d had been dispatched (wire order broken)", e.Seq, e.Handler, lastEnterSeq)
				}
				lastEnterSeq = e.Seq
			}
			if _, dup := open[key]; dup {
				return violationf("C03", "handler %s entered twice for line %d", e.Handler, e.Seq)
			}
			open[key] = e.Tick
		} else {
			en, ok := open[key]
			if !ok {
				return violationf("C03", "exit without enter: %s line %d", e.Handler, e.Seq)
			}
			delete(open, key)
			if e.Handler != "CONNECTED" {
				perSeq[e.Seq] = append(perSeq[e.Seq], span{en, e.Tick})
			} else {
				perSeq[-e.Seq] = append(perSeq[-e.Seq], span{en, e.Tick}) // CONNECTED spans under -wseq
			}
		}
	}
	for key, en := range open {
		return violationf("C03", "handler invocation %s (entered at tick %d) never finished although DISCONNECTED was delivered", key, en)
	}
	seqs := []int{}
	for s := range perSeq {
		if s > 0 {
			seqs = append(seqs, s)
		}
	}
	sort.Ints(seqs)
	// (b) all exits of line i precede all enters of the next delivered line
	for k := 1; k < len(seqs); k++ {
		var maxExit int64
		for _, sp := range perSeq[seqs[k-1]] {
			if sp.exit > maxExit {
				maxExit = sp.exit
			}
		}
		for _, sp := range perSeq[seqs[k]] {
			if sp.enter < maxExit {
				return violationf("C03", "a handler for line %d started (tick %d) before all handlers for line %d had finished (tick %d)", seqs[k], sp.enter, seqs[k-1], maxExit)
			}
		}
	}
	// (c) every acknowledged line was delivered to each of its handlers exactly once
	for i := 0; i < acked; i++ {
		want := len(sc.Handlers[sc.Verbs[i]])
		if got := len(perSeq[i+1]); got != want {
			return violationf("C03", "line %d (%s) preceded an acknowledged marker but ran %d handler invocations, want %d", i+1, sc.Verbs[i], got, want)
		}
	}
	for s, sp := range perSeq {
		verb := "CUSTOM" // (the extra long line of the temperr cause)
		if s >= 1 && s <= len(sc.Verbs) {
			verb = sc.Verbs[s-1]
		}
		if s > 0 && len(sp) != len(sc.Handlers[verb]) {
			return violationf("C03", "line %d ran %d handler invocations, want %d", s, len(sp), len(sc.Handlers[verb]))
		}
	}
	// (d) CONNECTED
	if wseq >= 1 && wseq <= acked {
		cs := perSeq[-wseq]
		if len(cs) != 1 {
			return violationf("C03", "CONNECTED delivered %d times for one welcome line", len(cs))
		}
		for _, s := range seqs {
			for _, sp := range perSeq[s] {
				if s < wseq && sp.exit > cs[0].enter {
					return violationf("C03", "CONNECTED started (tick %d) before a handler of earlier line %d finished (tick %d)", cs[0].enter, s, sp.exit)
				}
				if s > wseq && sp.enter < cs[0].exit {
					return violationf("C03", "a handler of line %d (after the welcome) started before CONNECTED finished", s)
				}
			}
		}
		if got, _ := meInConnected.Load().(string); got != welcomeNick {
			return violationf("C03", "inside the CONNECTED handler Me().Nick = %q, want the welcome line's %q", got, welcomeNick)
		}
	}
	// (e) DISCONNECTED after everything
	if discTick < 0 {
		return violationf("C03", "no DISCONNECTED in the log")
	}
	for _, e := range ev {
		if e.Handler != "DISCONNECTED" && e.Tick > discTick {
			return violationf("C03", "handler %s for line %d ran (tick %d) after DISCONNECTED was delivered (tick %d)", e.Handler, e.Seq, e.Tick, discTick)
		}
	}
	return nil
}

func (sc *c03Scenario) classes() (cls []string, nontrivial bool) {
	multi := false
	for _, hs := range sc.Handlers {
		if len(hs) >= 2 {
			multi = true
		}
		for _, h := range hs {
			if h.Kind == 2 {
				cls = append(cls, "slow_handler")
			}
			if h.Kind == 3 {
				cls = append(cls, "panicking_handler")
			}
		}
	}
	if sc.LongAt >= 0 {
		cls = append(cls, "long_line")
	}
	seg := "seg=drawn"
	if len(sc.Cuts) == 0 {
		seg = "seg=one_read"
	} else if sc.Cuts[0] == -1 {
		seg = "seg=bytewise"
	}
	if sc.TimeoutMS > 0 {
		cls = append(cls, "runtime_timeout")
	}
	if sc.CloseFails {
		cls = append(cls, "socket_close_reports_error")
	}
	cls = append(cls, seg, "cause="+sc.Cause, fmt.Sprintf("gomaxprocs=%d", sc.Procs))
	return cls, len(sc.Verbs) >= 2 && multi
}

func TestC03(t *testing.T) {
	col := evid.New("C03", "sessions of 5..150 numbered lines over 4 verbs plus one 001, 1..4 foreground handlers per verb with drawn durations, drawn read segmentation (one read, byte-wise, random cuts, a >4096-byte line), GOMAXPROCS 1/2/4/16, then EOF / read error / Close with 0..20 lines unread; oracle over the enter/exit tick log; non-trivial = >=2 lines and >=2 handlers on some verb; distinct by scenario")
	defer finish(t, col)
	rapid.Check(t, func(t *rapid.T) {
		sc := genC03(t)
		v := runC03(sc)
		cls, nt := sc.classes()
		col.Case(fmt.Sprintf("%+v", *sc), nt, uniqStrings(cls)...)
		if len(sc.Verbs) <= 8 {
			col.Sample(sc)
		}
		if v != nil {
			failRapid(t, "TestC03", v, sc)
		}
	})
}

func uniqStrings(in []string) []string {
	m := map[string]bool{}
	var out []string
	for _, s := range in {
		if !m[s] {
			m[s] = true
			out = append(out, s)
		}
	}
	return out
}

func TestC03_Replay(t *testing.T) {
	var sc c03Scenario
	loadReplay(t, &sc)
	hits := 0
	var last *Violation
	n := envInt("VERIF_REPLAY_RUNS", 200)
	for i := 0; i < n; i++ {
		if v := runC03(&sc); v != nil {
			hits++
			last = v
		}
	}
	if hits > 0 {
		t.Fatalf("REPRODUCED in %d of %d runs: %s", hits, n, last.Msg)
	}
}

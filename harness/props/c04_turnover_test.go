package props

import (
	"encoding/json"
	"fmt"
	"sort"
	"strings"
	"sync"
	"testing"
	"time"

	"verifharness/evid"

	"github.com/fluffle/goirc/client"
	"pgregory.net/rapid"
)

// ---------------------------------------------------------------------------
// C04, turnover leg: names that carry NO permanent handler. Their handler lists
// empty out completely and are re-populated again and again, with events of
// the name in between (also while nothing is registered). The main leg keeps a
// sentinel on every name, so there a list never disappears.
// Oracle: per event every live registration under the (case-folded) name runs
// exactly once, nothing else runs.
// ---------------------------------------------------------------------------

type c04TurnOp struct {
	Op   string `json:"op"`             // reg, remove, clear, event
	Name string `json:"name,omitempty"` // reg / clear / event: the spelling used
	BG   bool   `json:"bg,omitempty"`
	ID   int    `json:"id,omitempty"` // reg: new id; remove: victim
	Sync bool   `json:"sync,omitempty"` // event: followed by a marker line (otherwise the harness waits for the expected invocations)
}

type c04Turnover struct {
	Ops []c04TurnOp `json:"ops"`
}

var c04TurnNames = [][]string{{"EVT", "evt", "Evt"}, {"NOTICE", "notice", "NoTiCe"}, {"305", "305", "305"}}

func genC04Turnover(t *rapid.T) *c04Turnover {
	sc := &c04Turnover{}
	type h struct {
		name string
		bg   bool
	}
	live := map[int]h{}
	next := 1
	spell := func() string {
		n := rapid.IntRange(0, len(c04TurnNames)-1).Draw(t, "name")
		return c04TurnNames[n][rapid.IntRange(0, 2).Draw(t, "spelling")]
	}
	liveIDs := func(pred func(h) bool) []int {
		var ids []int
		for id, x := range live {
			if pred(x) {
				ids = append(ids, id)
			}
		}
		sort.Ints(ids)
		return ids
	}
	n := rapid.IntRange(6, 40).Draw(t, "nops")
	for i := 0; i < n; i++ {
		switch rapid.SampledFrom([]string{"reg", "reg", "remove", "clear", "event", "event", "event"}).Draw(t, "op") {
		case "reg":
			o := c04TurnOp{Op: "reg", Name: spell(), BG: rapid.Bool().Draw(t, "bg"), ID: next}
			next++
			live[o.ID] = h{strings.ToLower(o.Name), o.BG}
			sc.Ops = append(sc.Ops, o)
		case "remove":
			ids := liveIDs(func(h) bool { return true })
			if len(ids) == 0 {
				continue
			}
			id := rapid.SampledFrom(ids).Draw(t, "victim")
			delete(live, id)
			sc.Ops = append(sc.Ops, c04TurnOp{Op: "remove", ID: id})
		case "clear":
			// every handler of one name goes (in registration order or in reverse), then as many new ones arrive
			nm := spell()
			ids := liveIDs(func(x h) bool { return x.name == strings.ToLower(nm) })
			if rapid.Bool().Draw(t, "reverse") {
				sort.Sort(sort.Reverse(sort.IntSlice(ids)))
			}
			var kinds []bool
			for _, id := range ids {
				kinds = append(kinds, live[id].bg)
				delete(live, id)
				sc.Ops = append(sc.Ops, c04TurnOp{Op: "remove", ID: id})
			}
			if rapid.Bool().Draw(t, "event_while_empty") {
				sc.Ops = append(sc.Ops, c04TurnOp{Op: "event", Name: nm, Sync: rapid.Bool().Draw(t, "sync")})
			}
			if rapid.IntRange(0, 3).Draw(t, "refill") != 0 {
				for _, bg := range kinds {
					o := c04TurnOp{Op: "reg", Name: nm, BG: bg, ID: next}
					next++
					live[o.ID] = h{strings.ToLower(nm), bg}
					sc.Ops = append(sc.Ops, o)
				}
				sc.Ops = append(sc.Ops, c04TurnOp{Op: "event", Name: nm, Sync: rapid.Bool().Draw(t, "sync2")})
			}
		case "event":
			sc.Ops = append(sc.Ops, c04TurnOp{Op: "event", Name: spell(), Sync: rapid.Bool().Draw(t, "sync")})
		}
	}
	return sc
}

func runC04Turnover(sc *c04Turnover) *Violation {
	tc := newTestClient(cliOpts{Flood: true})
	defer tc.shutdown()
	if err := tc.connect(); err != nil {
		return violationf("C04", "connect: %v", err)
	}
	if !tc.syncIn(stallTimeout()) {
		return violationf("C04", "turnover leg: the fresh connection does not process lines")
	}
	var mu sync.Mutex
	counts := map[int]int{}
	type reg struct {
		name string
		rem  client.Remover
	}
	live := map[int]reg{}
	for k, o := range sc.Ops {
		switch o.Op {
		case "reg":
			id := o.ID
			f := func(c *client.Conn, l *client.Line) {
				mu.Lock()
				counts[id]++
				mu.Unlock()
			}
			var r client.Remover
			if !bounded(func() {
				if o.BG {
					r = tc.C.HandleBG(o.Name, client.HandlerFunc(f))
				} else {
					r = tc.C.HandleFunc(o.Name, f)
				}
			}) {
				return violationf("C04", "turnover leg: op %d: registering a handler for %q never returned", k, o.Name)
			}
			live[id] = reg{strings.ToLower(o.Name), r}
		case "remove":
			r := live[o.ID]
			delete(live, o.ID)
			var p interface{}
			if !bounded(func() {
				defer func() { p = recover() }()
				r.rem.Remove()
			}) {
				return violationf("C04", "turnover leg: op %d: Remove() never returned", k)
			}
			if p != nil {
				return violationf("C04", "turnover leg: op %d: Remove() of handler %d for %q panicked: %v", k, o.ID, r.name, p)
			}
		case "event":
			mu.Lock()
			for id := range counts {
				delete(counts, id)
			}
			mu.Unlock()
			want := map[int]int{}
			for id, r := range live {
				if r.name == strings.ToLower(o.Name) {
					want[id] = 1
				}
			}
			tc.conn().SendLine(fmt.Sprintf(":s!u@h %s tgt :%d", o.Name, k))
			if o.Sync || len(want) == 0 {
				if !tc.syncIn(stallTimeout()) {
					return violationf("C04", "turnover leg: op %d: event %q never completed", k, o.Name)
				}
			}
			ok := waitCond(stallTimeout(), func() bool {
				if tc.conn().Pending() != 0 || dispatchFrames() != 0 {
					return false
				}
				mu.Lock()
				defer mu.Unlock()
				for id := range want {
					if counts[id] < 1 {
						return false
					}
				}
				return true
			})
			if !o.Sync {
				// give an invocation that should not happen the chance to show up
				time.Sleep(200 * time.Microsecond)
				waitCond(stallTimeout(), func() bool { return dispatchFrames() == 0 })
			}
			mu.Lock()
			got := map[int]int{}
			for id, n := range counts {
				got[id] = n
			}
			mu.Unlock()
			if fmt.Sprint(got) != fmt.Sprint(want) {
				return violationf("C04", "turnover leg: op %d: event %q invoked handlers %v (id:times), want exactly %v — the name's handler list had been emptied and re-populated %s (all expected ran: %v)", k, o.Name, got, want, c04TurnHistory(sc, k), ok)
			}
		}
	}
	return nil
}

// c04TurnHistory: how often the event's name went from "has handlers" to "has none" before op k.
func c04TurnHistory(sc *c04Turnover, k int) string {
	name := strings.ToLower(sc.Ops[k].Name)
	byID := map[int]string{}
	n, emptied := 0, 0
	for _, o := range sc.Ops[:k] {
		switch o.Op {
		case "reg":
			byID[o.ID] = strings.ToLower(o.Name)
			if byID[o.ID] == name {
				n++
			}
		case "remove":
			if byID[o.ID] == name {
				n--
				if n == 0 {
					emptied++
				}
			}
		}
	}
	return fmt.Sprintf("%d times", emptied)
}

func (sc *c04Turnover) classes() (cls []string, nontrivial bool) {
	byID := map[int]string{}
	n := map[string]int{}
	emptied := map[string]bool{}
	for _, o := range sc.Ops {
		switch o.Op {
		case "reg":
			nm := strings.ToLower(o.Name)
			byID[o.ID] = nm
			n[nm]++
		case "remove":
			nm := byID[o.ID]
			n[nm]--
			if n[nm] == 0 {
				emptied[nm] = true
			}
		case "event":
			nm := strings.ToLower(o.Name)
			switch {
			case emptied[nm] && n[nm] > 0:
				cls = append(cls, "event_on_repopulated_name")
				nontrivial = true
			case emptied[nm]:
				cls = append(cls, "event_on_emptied_name")
			case n[nm] == 0:
				cls = append(cls, "event_on_never_used_name")
			default:
				cls = append(cls, "event_on_populated_name")
			}
		}
	}
	return
}

func TestC04_Turnover(t *testing.T) {
	col := evid.New("C04", "turnover leg: 3 names without any permanent handler, 6..40 operations (register fg/bg under any spelling, remove one, remove all of a name and register as many new ones, event with or without a following marker line); oracle: per event exactly the live registrations of the case-folded name run, once each; non-trivial = an event on a name whose list had been emptied and re-populated; distinct by scenario")
	defer finish(t, col)
	rapid.Check(t, func(t *rapid.T) {
		sc := genC04Turnover(t)
		v := runC04Turnover(sc)
		b, _ := json.Marshal(sc)
		cls, nt := sc.classes()
		col.Case(string(b), nt, cls...)
		if len(sc.Ops) <= 10 {
			col.Sample(sc)
		}
		if v != nil {
			failRapid(t, "TestC04_Turnover", v, sc)
		}
	})
}

func TestC04_Turnover_Replay(t *testing.T) {
	var sc c04Turnover
	loadReplay(t, &sc)
	if v := runC04Turnover(&sc); v != nil {
		t.Fatalf("REPRODUCED %s", v.Msg)
	}
}

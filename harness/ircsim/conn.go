// Package ircsim is the in-memory IRC "server" the checks own: a scripted
// net.Conn handed to a real goirc client through the public Config.Proxy hook.
package ircsim

import (
	"errors"
	"io"
	"net"
	"os"
	"strings"
	"sync"
	"syscall"
	"time"
)

// ErrClosed is what Read/Write return after the client closed the socket.
var ErrClosed = errors.New("ircsim: use of closed connection")

// Write records one client Write call.
type WriteRec struct {
	Data string
	At   time.Time // monotonic, taken on the client's own goroutine
}

// Conn is the client end of the scripted connection. All server-side
// scripting goes through the methods below the net.Conn implementation.
type Conn struct {
	mu   sync.Mutex
	cond *sync.Cond

	// server -> client
	segs      []seg    // queued segments; one Read returns at most one
	eof       bool     // after the queue is drained Read returns io.EOF
	readErr   error    // after the queue is drained Read returns this error
	reads     int      // number of Read calls that returned data
	failReadN int      // >0: the n-th data-returning Read fails instead (1-based)
	failReadErr error  // the error it fails with (nil: a plain one)
	shortTempAt, shortTempN int // >0: the Write call with this number takes shortTempN bytes and reports IntrError

	// client -> server
	writes     []WriteRec
	wbytes     strings.Builder // concatenation of all written bytes
	nwrites    int
	failWriteN int   // >0: the n-th Write call fails (1-based)
	shortFail  int   // >=0: the next Write takes this many bytes and fails, and so does every later one; -1 off
	writeErr   error // every Write fails with this
	gated      bool  // when true Write blocks until credit > 0
	credit     int   // writes allowed while gated

	wdeadline time.Time // write deadline set by the client (zero: none)
	partial   bool      // a Write that hits its deadline while the server is not reading reports a short write

	closed      bool // client called Close
	closeCalls  int
	closeErr    error // what Close reports (the socket is closed all the same)
	onWrite     func(data string) // optional callback, called outside the lock
	writeNotify chan struct{}
}

// seg is one queued read result: data, or (b == nil) an error returned once, after which reading goes on.
type seg struct {
	b   []byte
	err error
}

func newConn() *Conn {
	c := &Conn{writeNotify: make(chan struct{}, 1), shortFail: -1}
	c.cond = sync.NewCond(&c.mu)
	return c
}

// ---- net.Conn ----

func (c *Conn) Read(p []byte) (int, error) {
	c.mu.Lock()
	defer c.mu.Unlock()
	for {
		if c.closed {
			return 0, ErrClosed
		}
		if len(c.segs) > 0 {
			if c.failReadN > 0 && c.reads+1 >= c.failReadN {
				c.failReadN = 0
				c.readErr = c.failReadErr
				if c.readErr == nil {
					c.readErr = errors.New("ircsim: injected read error")
				}
				c.segs = nil
				continue
			}
			sg := c.segs[0]
			if sg.b == nil {
				c.segs = c.segs[1:]
				return 0, sg.err
			}
			n := copy(p, sg.b)
			if n == len(sg.b) {
				c.segs = c.segs[1:]
			} else {
				c.segs[0].b = sg.b[n:]
			}
			c.reads++
			return n, nil
		}
		if c.readErr != nil {
			return 0, c.readErr
		}
		if c.eof {
			return 0, io.EOF
		}
		c.cond.Wait()
	}
}

// errTimeout is what a Write returns when its deadline passes (a net.Error with Timeout() == true).
type errTimeout struct{}

func (errTimeout) Error() string   { return "ircsim: i/o timeout" }
func (errTimeout) Timeout() bool   { return true }
func (errTimeout) Temporary() bool { return true }

func (c *Conn) Write(p []byte) (int, error) {
	c.mu.Lock()
	for {
		if c.closed {
			c.mu.Unlock()
			return 0, ErrClosed
		}
		if c.writeErr != nil {
			err := c.writeErr
			c.mu.Unlock()
			return 0, err
		}
		if !c.gated || c.credit > 0 {
			break
		}
		if !c.wdeadline.IsZero() {
			// the peer is not reading and the client has set a write deadline: like a TCP socket whose
			// send buffer took part of the data, report a short write when the deadline passes
			if d := time.Until(c.wdeadline); d <= 0 {
				n := 0
				if c.partial && len(p) > 1 {
					n = len(p) / 2
					s := string(p[:n])
					c.writes = append(c.writes, WriteRec{Data: s, At: time.Now()})
					c.wbytes.WriteString(s)
				}
				c.mu.Unlock()
				return n, errTimeout{}
			} else {
				t := time.AfterFunc(d, func() { c.mu.Lock(); c.cond.Broadcast(); c.mu.Unlock() })
				c.cond.Wait()
				t.Stop()
				continue
			}
		}
		c.cond.Wait()
	}
	if c.gated {
		c.credit--
	}
	if c.shortFail >= 0 {
		n := c.shortFail
		if n > len(p) {
			n = len(p)
		}
		c.shortFail = -1
		c.writeErr = errors.New("ircsim: connection reset by peer")
		if n > 0 {
			c.writes = append(c.writes, WriteRec{Data: string(p[:n]), At: time.Now()})
			c.wbytes.WriteString(string(p[:n]))
		}
		err := c.writeErr
		c.mu.Unlock()
		return n, err
	}
	c.nwrites++
	if c.shortTempAt > 0 && c.nwrites == c.shortTempAt {
		c.shortTempAt = 0
		n := c.shortTempN
		if n >= len(p) {
			n = len(p) - 1 // (a write that took everything does not fail)
		}
		if n > 0 {
			c.writes = append(c.writes, WriteRec{Data: string(p[:n]), At: time.Now()})
			c.wbytes.WriteString(string(p[:n]))
		}
		c.mu.Unlock()
		return n, &net.OpError{Op: "write", Net: "tcp", Err: IntrError{}}
	}
	if c.failWriteN > 0 && c.nwrites >= c.failWriteN {
		c.failWriteN = 0
		c.writeErr = errors.New("ircsim: injected write error")
		err := c.writeErr
		c.mu.Unlock()
		return 0, err
	}
	s := string(p)
	c.writes = append(c.writes, WriteRec{Data: s, At: time.Now()})
	c.wbytes.WriteString(s)
	cb := c.onWrite
	c.cond.Broadcast()
	c.mu.Unlock()
	select {
	case c.writeNotify <- struct{}{}:
	default:
	}
	if cb != nil {
		cb(s)
	}
	return len(p), nil
}

func (c *Conn) Close() error {
	c.mu.Lock()
	c.closed = true
	c.closeCalls++
	err := c.closeErr
	c.cond.Broadcast()
	c.mu.Unlock()
	return err
}

// FailClose makes Close report err (as a TLS connection does whose peer is gone and cannot be
// sent close_notify); the connection is closed all the same.
func (c *Conn) FailClose(err error) {
	c.mu.Lock()
	c.closeErr = err
	c.mu.Unlock()
}

type addr string

func (a addr) Network() string { return "verif" }
func (a addr) String() string  { return string(a) }

func (c *Conn) LocalAddr() net.Addr                { return addr("client") }
func (c *Conn) RemoteAddr() net.Addr               { return addr("server") }
func (c *Conn) SetDeadline(t time.Time) error     { return c.SetWriteDeadline(t) }
func (c *Conn) SetReadDeadline(t time.Time) error { return nil }
func (c *Conn) SetWriteDeadline(t time.Time) error {
	c.mu.Lock()
	c.wdeadline = t
	c.cond.Broadcast()
	c.mu.Unlock()
	return nil
}

// PartialWrites makes a Write that times out report that half of its data was taken.
func (c *Conn) PartialWrites(on bool) {
	c.mu.Lock()
	c.partial = on
	c.mu.Unlock()
}

// ---- server-side scripting ----

// Send queues data as exactly one read segment.
func (c *Conn) Send(data string) {
	if data == "" {
		return
	}
	c.mu.Lock()
	c.segs = append(c.segs, seg{b: []byte(data)})
	c.cond.Broadcast()
	c.mu.Unlock()
}

// ReadError returns one of the errors a broken link makes a socket read fail with, all of them final
// (every later read fails the same way): 0 a plain error; 1 "connection timed out" - what a read returns
// once TCP keep-alive or retransmission has given the peer up, a net.Error whose Timeout() is true; 2
// "connection reset by peer"; 3 io.ErrUnexpectedEOF (a TLS record cut short).
func ReadError(kind int) error {
	switch kind % 4 {
	case 1:
		return &net.OpError{Op: "read", Net: "tcp", Err: os.NewSyscallError("read", syscall.ETIMEDOUT)}
	case 2:
		return &net.OpError{Op: "read", Net: "tcp", Err: os.NewSyscallError("read", syscall.ECONNRESET)}
	case 3:
		return io.ErrUnexpectedEOF
	}
	return errors.New("ircsim: injected read error")
}

// TempError is a transient network error (Timeout() and Temporary() are true).
type TempError struct{}

func (TempError) Error() string   { return "ircsim: resource temporarily unavailable" }
func (TempError) Timeout() bool   { return true }
func (TempError) Temporary() bool { return true }

// SendErrOnce queues an error that one Read call returns (after the segments queued before it
// were consumed); the segments queued after it remain readable.
func (c *Conn) SendErrOnce(err error) {
	c.mu.Lock()
	c.segs = append(c.segs, seg{err: err})
	c.cond.Broadcast()
	c.mu.Unlock()
}

// SendLine queues line + CRLF as one segment.
func (c *Conn) SendLine(line string) { c.Send(line + "\r\n") }

// SendSegmented queues data cut at the given offsets (each cut in (0,len)).
func (c *Conn) SendSegmented(data string, cuts []int) {
	c.mu.Lock()
	prev := 0
	for _, k := range cuts {
		if k <= prev || k >= len(data) {
			continue
		}
		c.segs = append(c.segs, seg{b: []byte(data[prev:k])})
		prev = k
	}
	if prev < len(data) {
		c.segs = append(c.segs, seg{b: []byte(data[prev:])})
	}
	c.cond.Broadcast()
	c.mu.Unlock()
}

// EOF makes Read return io.EOF once the queued segments are consumed.
func (c *Conn) EOF() {
	c.mu.Lock()
	c.eof = true
	c.cond.Broadcast()
	c.mu.Unlock()
}

// EOFNow discards queued segments and makes Read return io.EOF.
func (c *Conn) EOFNow() {
	c.mu.Lock()
	c.segs = nil
	c.eof = true
	c.cond.Broadcast()
	c.mu.Unlock()
}

// FailRead makes Read return err once the queue is drained (now=false) or
// immediately, discarding the queue (now=true).
func (c *Conn) FailRead(err error, now bool) {
	c.mu.Lock()
	if now {
		c.segs = nil
	}
	c.readErr = err
	c.cond.Broadcast()
	c.mu.Unlock()
}

// FailReadAt makes the n-th data-returning Read (1-based, counted from the
// start of the connection) fail instead.
func (c *Conn) FailReadAt(n int) {
	c.mu.Lock()
	c.failReadN = n
	c.mu.Unlock()
}

// FailReadAtWith is FailReadAt with the error to fail with.
func (c *Conn) FailReadAtWith(n int, err error) {
	c.mu.Lock()
	c.failReadN, c.failReadErr = n, err
	c.mu.Unlock()
}

// FailWriteAt makes the n-th Write call (1-based) and all later ones fail.
func (c *Conn) FailWriteAt(n int) {
	c.mu.Lock()
	c.failWriteN = n
	c.mu.Unlock()
}

// IntrError is an interrupted system call as a socket write reports it: a net.Error that is Temporary()
// but not a Timeout(). Nothing is wrong with the connection.
type IntrError struct{}

func (IntrError) Error() string   { return "ircsim: interrupted system call" }
func (IntrError) Timeout() bool   { return false }
func (IntrError) Temporary() bool { return true }

// ShortTempAt makes the k-th Write call from now (1-based) take only its first n bytes and report a
// transient error; the connection stays usable and later Writes succeed.
func (c *Conn) ShortTempAt(k, n int) {
	c.mu.Lock()
	c.shortTempAt, c.shortTempN = c.nwrites+k, n
	c.mu.Unlock()
}

// ShortFailNext makes the next Write take only its first n bytes and report an error; all later
// Writes fail.
func (c *Conn) ShortFailNext(n int) {
	c.mu.Lock()
	c.shortFail = n
	c.mu.Unlock()
}

// FailWrites makes every later Write fail.
func (c *Conn) FailWrites(err error) {
	c.mu.Lock()
	c.writeErr = err
	c.cond.Broadcast()
	c.mu.Unlock()
}

// Gate switches the server to "reads only on demand": Write blocks until
// Allow grants credit (or the connection is closed).
func (c *Conn) Gate(on bool) {
	c.mu.Lock()
	c.gated = on
	c.cond.Broadcast()
	c.mu.Unlock()
}

// Allow lets n more Writes through while gated.
func (c *Conn) Allow(n int) {
	c.mu.Lock()
	c.credit += n
	c.cond.Broadcast()
	c.mu.Unlock()
}

// OnWrite installs a callback invoked (outside the lock, on the writer's
// goroutine) after each successful Write.
func (c *Conn) OnWrite(f func(string)) {
	c.mu.Lock()
	c.onWrite = f
	c.mu.Unlock()
}

// Closed reports whether the client has closed the socket.
func (c *Conn) Closed() bool {
	c.mu.Lock()
	defer c.mu.Unlock()
	return c.closed
}

// Pending is the number of queued, unread segments.
func (c *Conn) Pending() int {
	c.mu.Lock()
	defer c.mu.Unlock()
	return len(c.segs)
}

// Reads is the number of Read calls that returned data.
func (c *Conn) Reads() int {
	c.mu.Lock()
	defer c.mu.Unlock()
	return c.reads
}

// Written returns every byte the client wrote so far.
func (c *Conn) Written() string {
	c.mu.Lock()
	defer c.mu.Unlock()
	return c.wbytes.String()
}

// Writes returns a copy of the write records.
func (c *Conn) Writes() []WriteRec {
	c.mu.Lock()
	defer c.mu.Unlock()
	out := make([]WriteRec, len(c.writes))
	copy(out, c.writes)
	return out
}

// WaitWritten blocks until pred(all bytes written) is true, the client closes
// the socket, or the timeout expires. It reports whether pred became true.
func (c *Conn) WaitWritten(pred func(string) bool, timeout time.Duration) bool {
	deadline := time.Now().Add(timeout)
	for {
		c.mu.Lock()
		s := c.wbytes.String()
		closed := c.closed
		c.mu.Unlock()
		if pred(s) {
			return true
		}
		if closed {
			return false
		}
		left := time.Until(deadline)
		if left <= 0 {
			return false
		}
		if left > 50*time.Millisecond {
			left = 50 * time.Millisecond
		}
		select {
		case <-c.writeNotify:
		case <-time.After(left):
		}
	}
}

// WaitClosed blocks until the client closed the socket or timeout.
func (c *Conn) WaitClosed(timeout time.Duration) bool {
	deadline := time.Now().Add(timeout)
	for {
		if c.Closed() {
			return true
		}
		if time.Now().After(deadline) {
			return false
		}
		time.Sleep(200 * time.Microsecond)
	}
}

// Lines splits written bytes into complete CRLF-terminated lines; the second
// result is whatever follows the last CRLF.
func SplitLines(written string) (lines []string, rest string) {
	for {
		i := strings.Index(written, "\r\n")
		if i < 0 {
			return lines, written
		}
		lines = append(lines, written[:i])
		written = written[i+2:]
	}
}

package props

import (
	"encoding/json"
	"fmt"
	"strings"
	"sync/atomic"
	"testing"
	"time"

	"verifharness/evid"
	"verifharness/ircsim"

	sasl "github.com/emersion/go-sasl"
	"github.com/fluffle/goirc/client"
	"pgregory.net/rapid"
)

// ---------------------------------------------------------------------------
// C18: registration and keep-alive
// ---------------------------------------------------------------------------

type c18Line struct {
	Ping  bool `json:"ping"`
	Form  int  `json:"form"` // ping: 0 ":tok", 1 "tok", 2 "tok other"
	Token Q    `json:"token"`
	Other Q    `json:"other"` // non-ping traffic
}

type c18Scenario struct {
	Nick, Ident string
	Name        Q      `json:"name"`
	Pass        Q      `json:"pass"`
	CapNeg      bool   `json:"capneg"`
	// WantCaps: the application has filled in Config.Capabilites (1) and/or Config.Sasl (2) - what is wanted
	// - whether or not negotiation is enabled: CAP LS is sent only if it is
	WantCaps int `json:"want_caps,omitempty"`
	// LateSasl: a SASL mechanism is put into Config() only after Client() returned (where, negotiation being
	// off, nothing switched it on): negotiation stays as configured
	LateSasl bool `json:"late_sasl,omitempty"`
	SSL         bool   `json:"ssl"`
	Server      string `json:"server"`
	PingFreqMS  int    `json:"ping_freq_ms"` // -1000, 0, 20, 180000
	Tracking    bool   `json:"tracking"`
	CtxDialer   bool   `json:"ctx_dialer"`
	Cycles      int    `json:"cycles"`
	NewNick     string `json:"welcome_nick"` // nick given by the first 001 ("" = no 001)
	// ForcedNick: before each reconnect the server changes the client's nick, and nothing asks the client who
	// it is (no Me() call) until the next registration has been sent
	ForcedNick  bool   `json:"forced_nick"`
	// Collide: on the first connection the server refuses the registration nick once (433); the client falls
	// back to the generated nick, which is then its current one
	Collide bool `json:"collide"`
	LateWhat    string `json:"late_what"`    // all: Server, SSL and Pass are set late; ssl: only SSL is flipped late
	LateConfig  bool   `json:"late_config"`  // Server / SSL / Pass are set through Config() after Client(), before Connect()
	Backlog     int    `json:"backlog"`      // lines queued behind a server that is not reading when the PINGs arrive
	// Measure (with Chatty and PingFreq 20 ms): count the client's PINGs over 250 ms of silence and over 250 ms
	// of server chatter in the same run: chatter must not make them (much) rarer
	Measure bool `json:"measure,omitempty"`
	Chatty      bool   `json:"chatty"`       // the server keeps talking while the client's keep-alive PINGs are awaited
	Lines       []c18Line
}

var c18Servers = []string{"irc.example.net", "irc.example.net:7000", "192.0.2.7", "192.0.2.7:6660", "[2001:db8::1]:6697", "localhost", "host-with-dash.example:6667"}

func genC18(t *rapid.T) *c18Scenario {
	sc := &c18Scenario{
		Nick:       rapid.SampledFrom([]string{"me", "Nick_1", "[bot]"}).Draw(t, "nick"),
		Ident:      rapid.SampledFrom([]string{"ident", "~u", "x"}).Draw(t, "ident"),
		Name:       Q(rapid.SampledFrom([]string{"Real Name", "name: with colon", " lead", "x", ":colonfirst", "a  b"}).Draw(t, "name")),
		CapNeg:     rapid.Bool().Draw(t, "capneg"),
		WantCaps:   rapid.SampledFrom([]int{0, 0, 1, 2, 3}).Draw(t, "want_caps"),
		LateSasl:   rapid.IntRange(0, 3).Draw(t, "late_sasl") == 0,
		SSL:        rapid.IntRange(0, 3).Draw(t, "ssl") == 0,
		Server:     rapid.SampledFrom(c18Servers).Draw(t, "server"),
		PingFreqMS: rapid.SampledFrom([]int{-1000, 0, 0, 20, 180000, 180000}).Draw(t, "pingfreq"),
		Tracking:   rapid.Bool().Draw(t, "tracking"),
		CtxDialer:  rapid.Bool().Draw(t, "ctx_dialer"),
		Cycles:     rapid.SampledFrom([]int{1, 1, 2, 3}).Draw(t, "cycles"),
		NewNick:    rapid.SampledFrom([]string{"", "me", "other9", "Nick_1"}).Draw(t, "welcome_nick"),
	}
	sc.ForcedNick = rapid.IntRange(0, 2).Draw(t, "forced_nick") == 0
	sc.Collide = rapid.IntRange(0, 3).Draw(t, "collide") == 0
	sc.LateConfig = rapid.Bool().Draw(t, "late_config")
	if sc.LateConfig {
		sc.LateWhat = rapid.SampledFrom([]string{"all", "ssl"}).Draw(t, "late_what")
	}
	sc.Chatty = rapid.Bool().Draw(t, "chatty")
	sc.Measure = rapid.IntRange(0, 7).Draw(t, "measure") == 0
	if rapid.IntRange(0, 3).Draw(t, "backlog") == 0 {
		sc.Backlog = rapid.SampledFrom([]int{20, 33, 40, 80}).Draw(t, "backlog_n")
	}
	if rapid.Bool().Draw(t, "has_pass") {
		sc.Pass = Q(rapid.SampledFrom([]string{"secret", "p w", ":x", "hunter2*"}).Draw(t, "pass"))
	}
	n := rapid.IntRange(0, 40).Draw(t, "nlines")
	for i := 0; i < n; i++ {
		if rapid.IntRange(0, 2).Draw(t, "is_ping") > 0 {
			l := c18Line{Ping: true, Form: rapid.IntRange(0, 2).Draw(t, "form")}
			switch rapid.IntRange(0, 7).Draw(t, "tok_kind") {
			case 0:
				l.Token = "" // empty but present (trailing form only)
				l.Form = 0
			case 1:
				l.Token = Q("tok with spaces " + fmt.Sprint(i))
				l.Form = 0
			case 2:
				l.Token = Q(":" + fmt.Sprint(i) + ":x")
				l.Form = 0
			case 3:
				l.Token = Q(rapid.SampledFrom([]string{" lead", "trail ", " ", "tab\t", "two  ", " both "}).Draw(t, "ws_token") + fmt.Sprint(i) + rapid.SampledFrom([]string{"", " ", "  ", "\t"}).Draw(t, "ws_tail"))
				l.Form = 0
			case 4:
				l.Token = Q(strings.Repeat("L", rapid.SampledFrom([]int{400, 600, 5000, 400, 600, 5000, 70000, 1<<20 + 64}).Draw(t, "long")) + fmt.Sprint(i))
			default:
				l.Token = Q(fmt.Sprintf("irc.server.%d", i))
			}
			sc.Lines = append(sc.Lines, l)
		} else {
			sc.Lines = append(sc.Lines, c18Line{Other: Q(rapid.SampledFrom([]string{
				":a!b@c PRIVMSG me :hello", ":irc.server NOTICE * :*** Looking up", ":a!b@c PRIVMSG me :\x01VERSION\x01", ":irc.server 372 me :- motd",
				"PONG irc.server :x", ":a!b@c PRIVMSG #c :PING :fake", ":irc.server 005 me A=B :are supported", "PINGX :notaping", ":a!b@c NOTICE me :PING 1"}).Draw(t, "other"))})
		}
	}
	return sc
}

// parsePong is the reference reading of "PONG <param>".
func parsePong(l string) (string, bool) {
	if l == "PONG" {
		return "", false
	}
	if !strings.HasPrefix(l, "PONG ") {
		return "", false
	}
	rest := strings.TrimLeft(l[5:], " ")
	if strings.HasPrefix(rest, ":") {
		return rest[1:], true
	}
	if i := strings.Index(rest, " "); i >= 0 {
		rest = rest[:i]
	}
	return rest, true
}

func expectAddr(server string, ssl bool) string {
	// a port is present iff the last ':' follows the last ']' (bracketed IPv6 without port is not generated)
	if strings.LastIndex(server, ":") > strings.LastIndex(server, "]") {
		return server
	}
	if ssl {
		return server + ":6697"
	}
	return server + ":6667"
}

func runC18(sc *c18Scenario) *Violation {
	tc := newTestClient(cliOpts{Nick: sc.Nick, Flood: true, Tracking: sc.Tracking, CtxDialer: sc.CtxDialer, Server: sc.Server,
		PingFreq: time.Duration(sc.PingFreqMS) * time.Millisecond,
		Configure: func(cfg *client.Config) {
			cfg.Me.Ident, cfg.Me.Name = sc.Ident, string(sc.Name)
			cfg.EnableCapabilityNegotiation = sc.CapNeg
			if sc.WantCaps&1 != 0 {
				cfg.Capabilites = []string{"multi-prefix", "away-notify"}
			}
			if sc.WantCaps&2 != 0 {
				cfg.Sasl = sasl.NewPlainClient("", "user", "secret")
			}
			if sc.LateConfig && sc.LateWhat == "ssl" {
				// Server is known from the start; whether to use TLS is decided (the other way round) later
				cfg.Pass = string(sc.Pass)
				cfg.SSL = !sc.SSL
				return
			}
			if sc.LateConfig {
				cfg.Server = "placeholder.invalid:1"
				return
			}
			cfg.Pass = string(sc.Pass)
			cfg.SSL = sc.SSL
		}})
	defer tc.shutdown()
	if sc.LateSasl {
		tc.C.Config().Sasl = sasl.NewPlainClient("", "late", "secret")
	}
	if sc.LateConfig {
		// "Changing these after connection will have no effect until the client reconnects" - so
		// changing them before the first Connect must take effect
		cfg := tc.C.Config()
		if sc.LateWhat == "ssl" {
			cfg.SSL = sc.SSL
		} else {
			cfg.Server, cfg.Pass, cfg.SSL = sc.Server, string(sc.Pass), sc.SSL
		}
	}
	disc := make(chan struct{}, 8)
	tc.C.HandleFunc(client.DISCONNECTED, func(*client.Conn, *client.Line) { disc <- struct{}{} })
	wantAddr := expectAddr(sc.Server, sc.SSL)
	if sc.SSL {
		// the TLS handshake needs a TLS server; only the dialled address is checked, on a dial that fails
		tc.S.FailDials(ircsim.ErrDial)
		if err := tc.C.Connect(); err == nil {
			return violationf("C18", "Connect succeeded although the dial failed")
		}
		addrs := tc.S.Addrs()
		if len(addrs) != 1 || addrs[0] != wantAddr {
			return violationf("C18", "SSL: dialled %q for Server=%q, want %q", addrs, sc.Server, wantAddr)
		}
		return nil
	}
	curNick := sc.Nick
	for cycle := 0; cycle < sc.Cycles; cycle++ {
		if err := tc.C.Connect(); err != nil {
			return violationf("C18", "cycle %d: Connect: %v", cycle, err)
		}
		addrs := tc.S.Addrs()
		if got := addrs[len(addrs)-1]; got != wantAddr {
			return violationf("C18", "cycle %d: dialled %q for Server=%q, want %q", cycle, got, sc.Server, wantAddr)
		}
		conn := tc.conn()
		// registration prefix
		var want []string
		// (Client() switches negotiation on when a SASL mechanism is configured: "required for SASL")
		capneg := sc.CapNeg || sc.WantCaps&2 != 0
		if capneg {
			want = append(want, "CAP LS")
		}
		if sc.Pass != "" {
			want = append(want, "PASS "+string(sc.Pass))
		}
		want = append(want, "NICK "+curNick, "USER "+sc.Ident+" 12 * :"+string(sc.Name))
		if !tc.syncOut(stallTimeout()) {
			return violationf("C18", "cycle %d: PING after connect never answered; transcript %q", cycle, tail(conn.Written(), 300))
		}
		lines, _ := SplitCRLF(conn.Written())
		var reg []string
		for _, l := range lines {
			if strings.HasPrefix(l, "PING :") { // the client's own keep-alive
				continue
			}
			if strings.HasPrefix(l, "PONG :vq") {
				break
			}
			reg = append(reg, l)
		}
		if strings.Join(reg, "\n") != strings.Join(want, "\n") {
			return violationf("C18", "cycle %d: registration lines %q, want %q", cycle, reg, want)
		}
		if capneg {
			conn.SendLine(":irc.server CAP * LS :multi-prefix sasl server-time")
			if !tc.syncOut(stallTimeout()) {
				return violationf("C18", "cycle %d: no answer after CAP LS reply", cycle)
			}
		}
		if cycle == 0 && sc.Collide {
			conn.SendLine(":irc.server 433 * " + curNick + " :Nickname is already in use.")
			if !tc.syncOut(stallTimeout()) {
				return violationf("C18", "cycle %d: no answer after 433", cycle)
			}
			curNick = client.DefaultNewNick(curNick)
			if !strings.Contains(conn.Written(), "NICK "+curNick+"\r\n") {
				return nil // C17's subject
			}
		}
		if cycle == 0 && sc.NewNick != "" && !sc.Collide {
			conn.SendLine(":irc.server 001 " + sc.NewNick + " :Welcome to IRC " + sc.NewNick + "!" + sc.Ident + "@host")
			curNick = sc.NewNick
		}
		base := len(conn.Written())
		start := time.Now()
		var wantPongs []string
		backlogDone := make(chan struct{})
		if sc.Backlog > 0 {
			// the server stops reading and a user goroutine fills the output queue: PINGs arriving now
			// must still be answered once the server reads again
			conn.Gate(true)
			go func() {
				defer close(backlogDone)
				for i := 0; i < sc.Backlog; i++ {
					tc.C.Raw(fmt.Sprintf("BACKLOG %d", i))
				}
			}()
			time.Sleep(2 * time.Millisecond)
		} else {
			close(backlogDone)
		}
		for _, l := range sc.Lines {
			if !l.Ping {
				conn.SendLine(string(l.Other))
				continue
			}
			switch l.Form {
			case 0:
				conn.SendLine("PING :" + string(l.Token))
			case 1:
				conn.SendLine("PING " + string(l.Token))
			case 2:
				conn.SendLine(":irc.server PING " + string(l.Token) + " other.server")
			}
			wantPongs = append(wantPongs, string(l.Token))
		}
		if sc.Backlog > 0 {
			time.Sleep(2 * time.Millisecond)
			conn.Gate(false)
		}
		if !tc.syncOut(stallTimeout()) {
			return violationf("C18", "cycle %d: final PING never answered", cycle)
		}
		select {
		case <-backlogDone:
		case <-time.After(stallTimeout()):
			return violationf("C18", "cycle %d: backlog sender never finished", cycle)
		}
		after, _ := SplitCRLF(conn.Written()[base:])
		var pongs []string
		ownPings := 0
		for _, l := range after {
			if tok, ok := parsePong(l); ok {
				if !strings.HasPrefix(tok, "vq") {
					pongs = append(pongs, tok)
				}
			} else if strings.HasPrefix(l, "PONG") {
				return violationf("C18", "malformed PONG on the wire: %q", l)
			}
			if strings.HasPrefix(l, "PING ") {
				ownPings++
			}
		}
		if len(pongs) != len(wantPongs) {
			return violationf("C18", "cycle %d: %d PONGs for %d server PINGs (got %q)", cycle, len(pongs), len(wantPongs), clip(pongs))
		}
		for i := range pongs {
			if pongs[i] != wantPongs[i] {
				return violationf("C18", "cycle %d: PONG %d carries %q, want the PING's token %q", cycle, i, tail(pongs[i], 60), tail(wantPongs[i], 60))
			}
		}
		// keep-alive
		switch {
		case sc.PingFreqMS == 20:
			stopChat := make(chan struct{})
			chatN := 0
			countPings := func() int {
				w := conn.Written()
				return strings.Count(w, "\r\nPING :") + boolInt(strings.HasPrefix(w, "PING :"))
			}
			var chatOff atomic.Bool
			if sc.Chatty {
				// traffic from the server does not replace the client's own keep-alive
				go func() {
					for {
						select {
						case <-stopChat:
							return
						case <-time.After(2 * time.Millisecond):
							if chatOff.Load() {
								continue
							}
							// (every other line is a PING of the server's own: answering those is no
							// substitute for the client's keep-alive either)
							if chatN++; chatN%2 == 0 {
								conn.SendLine("PING :server-keepalive")
							} else {
								conn.SendLine(":irc.server NOTICE me :still here")
							}
						}
					}
				}()
			}
			defer close(stopChat)
			ok := conn.WaitWritten(func(w string) bool {
				return strings.Count(w, "\r\nPING :")+boolInt(strings.HasPrefix(w, "PING :")) >= 3
			}, 30*time.Second)
			if !ok {
				return violationf("C18", "PingFreq=20ms: fewer than 3 client PINGs in 30 s")
			}
			if sc.Chatty && sc.Measure {
				// Same machine, same load: three periods of server silence alternate with three periods of
				// server chatter, 200 ms each, and the client's PINGs are counted in both. What the server says
				// must not switch the keep-alive off. Only a near-total loss counts (<= 2 PINGs in 600 ms of
				// chatter against >= 18 in 600 ms of silence): scheduling noise thins PINGs out, it does not
				// remove them for one kind of period only.
				quiet, chat := 0, 0
				for round := 0; round < 3; round++ {
					chatOff.Store(true)
					time.Sleep(10 * time.Millisecond)
					p0 := countPings()
					time.Sleep(200 * time.Millisecond)
					quiet += countPings() - p0
					chatOff.Store(false)
					time.Sleep(10 * time.Millisecond)
					p0 = countPings()
					time.Sleep(200 * time.Millisecond)
					chat += countPings() - p0
				}
				if quiet >= 18 && chat <= 2 {
					return violationf("C18", "PingFreq=20ms: %d client PINGs in 600 ms of server silence but %d in 600 ms (alternating periods) in which the server was talking (a PING or NOTICE every 2 ms): the keep-alive must be sent periodically whatever else arrives", quiet, chat)
				}
			}
		default:
			// PingFreq <= 0 or 3 minutes: no client PING may appear during this short session
			if el := time.Since(start); ownPings > 0 || strings.Contains(conn.Written(), "\r\nPING :") {
				return violationf("C18", "PingFreq=%dms: client sent a PING of its own after %v", sc.PingFreqMS, el)
			}
		}
		if cycle+1 < sc.Cycles && sc.ForcedNick {
			forced := fmt.Sprintf("Forced%d", cycle)
			conn.SendLine(":" + curNick + "!" + sc.Ident + "@host NICK :" + forced)
			if !tc.syncOut(stallTimeout()) {
				return violationf("C18", "cycle %d: no answer after a server-forced NICK", cycle)
			}
			curNick = forced
		}
		if cycle+1 < sc.Cycles {
			go tc.C.Close()
			select {
			case <-disc:
			case <-time.After(stallTimeout()):
				return violationf("C18", "cycle %d: no DISCONNECTED after Close", cycle)
			}
			// let the finished connection's goroutines leave before reconnecting (their late Close is C07's subject)
			if !waitCond(stallTimeout(), func() bool { n, _ := goircGoroutines(); return n == 0 }) {
				return violationf("C18", "cycle %d: goroutines of the closed connection never exited", cycle)
			}
			if !sc.ForcedNick && (tc.C.Me() == nil || tc.C.Me().Nick != curNick) {
				// C17's subject; do not continue with an unknown nick
				return nil
			}
		}
	}
	return nil
}

func boolInt(b bool) int {
	if b {
		return 1
	}
	return 0
}

func (sc *c18Scenario) classes() (cls []string, nontrivial bool) {
	for _, l := range sc.Lines {
		if l.Ping && (strings.ContainsAny(string(l.Token), " :") || l.Token == "") {
			nontrivial = true
			cls = append(cls, "odd_token")
		}
		if l.Ping && len(l.Token) > 300 {
			cls = append(cls, "long_token")
		}
	}
	if expectAddr(sc.Server, false) != sc.Server {
		nontrivial = true
		cls = append(cls, "server_without_port")
	}
	if sc.Cycles >= 2 {
		nontrivial = true
		cls = append(cls, "reconnect")
	}
	if sc.LateConfig {
		cls = append(cls, "late_config="+sc.LateWhat)
	}
	if sc.Collide && sc.Cycles > 1 {
		cls = append(cls, "nick_collision_before_reconnect")
	}
	if sc.ForcedNick && sc.Cycles > 1 {
		cls = append(cls, "nick_forced_before_reconnect")
	}
	if sc.Backlog > 0 {
		cls = append(cls, "pings_behind_backlog")
	}
	cls = append(cls, fmt.Sprintf("pingfreq=%d", sc.PingFreqMS), fmt.Sprintf("ssl=%v", sc.SSL), fmt.Sprintf("capneg=%v", sc.CapNeg), fmt.Sprintf("caps_wanted=%v", sc.WantCaps != 0), fmt.Sprintf("pass=%v", sc.Pass != ""))
	return uniqStrings(cls), nontrivial
}

func TestC18(t *testing.T) {
	col := evid.New("C18", "configurations (nick/ident/real name with spaces and colons, password, capability negotiation, SSL, server with/without port incl. IPv4 and bracketed IPv6, PingFreq -1s/0/20ms/3min, tracking, dialer with/without context) x sessions of 0..40 lines mixing PING forms (trailing, middle, two-parameter, empty, spaces, colons, 5000 bytes) with other traffic x 1..3 connect cycles; non-trivial = odd token, server without port, or reconnect; distinct by scenario")
	defer finish(t, col)
	rapid.Check(t, func(t *rapid.T) {
		sc := genC18(t)
		journal(sc)
		v := runC18(sc)
		cls, nt := sc.classes()
		b, _ := json.Marshal(sc)
		col.Case(string(b), nt, cls...)
		if len(sc.Lines) <= 3 {
			col.Sample(sc)
		}
		if v != nil {
			failRapid(t, "TestC18", v, sc)
		}
	})
}

func TestC18_Replay(t *testing.T) {
	var sc c18Scenario
	loadReplay(t, &sc)
	if v := runC18(&sc); v != nil {
		t.Fatalf("REPRODUCED %s", v.Msg)
	}
}

// TestC18_Regress replays, without the generator library, the history behind a defect that was repaired
// in goirc (known_findings.json).
func TestC18_Regress(t *testing.T) {
	col := evid.New("C18", "regression leg: the minimal history of a repaired defect, replayed as a plain scenario")
	defer finish(t, col)
	// tracked client, nick forced by the server, nothing calls Me(), reconnect: NICK carried the old nick
	d16 := &c18Scenario{Nick: "me", Ident: "ident", Name: "Real Name", Server: "irc.example.net", PingFreqMS: -1000, Tracking: true, Cycles: 2, ForcedNick: true}
	if v := runC18(d16); v != nil {
		writeReplay("TestC18", v, d16)
		t.Fatalf("VIOLATION C18: %s", v.Msg)
	}
	col.Case("d16", true, "regression")
}

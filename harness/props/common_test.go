// goirc's go.mod says "go 1.13", so in goirc's own test binaries and in programs of users who have not raised
// their go directive, timers have the pre-1.23 semantics (a stopped or reset timer can still deliver a stale
// tick). The harness module needs go 1.23 for its libraries; it keeps that one run-time default as goirc has it.
//
//go:debug asynctimerchan=1
package props

import (
	"encoding/json"
	"fmt"
	"os"
	"reflect"
	"runtime"
	"strconv"
	"strings"
	"sync"
	"sync/atomic"
	"testing"
	"time"
	"unsafe"

	"verifharness/evid"
	"verifharness/ircsim"

	"github.com/fluffle/goirc/client"
	"pgregory.net/rapid"
)

// ---------------------------------------------------------------------------
// environment supplied by the driver
// ---------------------------------------------------------------------------

func tier() string {
	if t := os.Getenv("VERIF_TIER"); t != "" {
		return t
	}
	return "quick"
}

func thorough() bool { return tier() == "thorough" }

func envInt(name string, def int) int {
	if v := os.Getenv(name); v != "" {
		if n, err := strconv.Atoi(v); err == nil {
			return n
		}
	}
	return def
}

// statsPath is where the collector is written (one file per process).
func statsPath() string { return os.Getenv("VERIF_STATS") }

// replayOut is where a failing scenario is written.
func replayOut() string { return os.Getenv("VERIF_REPLAY_OUT") }

// replayIn is the scenario file TestCNN_Replay re-executes.
func replayIn() string { return os.Getenv("VERIF_REPLAY_IN") }

// journalPath: each crash-prone case is written here before it runs.
func journalPath() string { return os.Getenv("VERIF_JOURNAL") }

func finish(t testing.TB, c *evid.Collector) {
	if p := statsPath(); p != "" {
		if err := c.Write(p); err != nil {
			t.Fatalf("writing stats: %v", err)
		}
	}
}

// Q is a string that may hold arbitrary bytes; it survives JSON losslessly
// as a Go-quoted ASCII literal.
type Q string

func (q Q) MarshalJSON() ([]byte, error) {
	return json.Marshal(strconv.QuoteToASCII(string(q)))
}

func (q *Q) UnmarshalJSON(b []byte) error {
	var s string
	if err := json.Unmarshal(b, &s); err != nil {
		return err
	}
	u, err := strconv.Unquote(s)
	if err != nil {
		return err
	}
	*q = Q(u)
	return nil
}

func qs(ss []string) []Q {
	out := make([]Q, len(ss))
	for i, s := range ss {
		out[i] = Q(s)
	}
	return out
}

// A Violation is what a scenario run returns when the property's oracle fails.
type Violation struct {
	Property string      `json:"property"`
	Msg      string      `json:"message"`
	Key      string      `json:"key,omitempty"` // known-finding key this failure matches, if any
	Detail   interface{} `json:"detail,omitempty"`
}

func (v *Violation) Error() string { return v.Msg }

func violationf(prop, format string, args ...interface{}) *Violation {
	return &Violation{Property: prop, Msg: fmt.Sprintf(format, args...)}
}

type replayFile struct {
	Property  string          `json:"property"`
	Test      string          `json:"test"`
	Message   string          `json:"message"`
	Key       string          `json:"key,omitempty"`
	Detail    interface{}     `json:"detail,omitempty"`
	Scenario  json.RawMessage `json:"scenario"`
	Goroutine string          `json:"goroutines,omitempty"`
}

// writeReplay stores the failing scenario; called on every failing execution
// so that after shrinking the file holds the minimal case.
func writeReplay(test string, v *Violation, scenario interface{}) {
	p := replayOut()
	if p == "" {
		return
	}
	sc, err := json.Marshal(scenario)
	if err != nil {
		sc, _ = json.Marshal(fmt.Sprintf("unmarshalable scenario: %v", err))
	}
	rf := replayFile{Property: v.Property, Test: test, Message: v.Msg, Key: v.Key, Detail: v.Detail, Scenario: sc}
	b, _ := json.MarshalIndent(rf, "", " ")
	os.WriteFile(p, b, 0o644)
}

func loadReplay(t *testing.T, scenario interface{}) *replayFile {
	p := replayIn()
	if p == "" {
		t.Skip("no VERIF_REPLAY_IN")
	}
	b, err := os.ReadFile(p)
	if err != nil {
		t.Fatalf("reading replay: %v", err)
	}
	var rf replayFile
	if err := json.Unmarshal(b, &rf); err != nil {
		t.Fatalf("parsing replay: %v", err)
	}
	if err := json.Unmarshal(rf.Scenario, scenario); err != nil {
		t.Fatalf("parsing scenario: %v", err)
	}
	return &rf
}

// journal records the case about to run so that a process crash can be
// attributed to an input.
func journal(v interface{}) {
	p := journalPath()
	if p == "" {
		return
	}
	b, _ := json.Marshal(v)
	os.WriteFile(p, b, 0o644)
}

// failRapid reports a violation from inside a rapid property.
func failRapid(t *rapid.T, test string, v *Violation, scenario interface{}) {
	writeReplay(test, v, scenario)
	t.Fatalf("VIOLATION %s: %s", v.Property, v.Msg)
}

// ---------------------------------------------------------------------------
// waiting
// ---------------------------------------------------------------------------

// stallTimeout bounds every wait. Typical latencies are well under a
// millisecond; the bound is there only to stop waiting when the code under
// test has dead-locked or lost an event.
func stallTimeout() time.Duration {
	return time.Duration(envInt("VERIF_STALL_MS", 20000)) * time.Millisecond
}

func goroutineDump() string {
	buf := make([]byte, 1<<20)
	n := runtime.Stack(buf, true)
	return string(buf[:n])
}

// goircGoroutines counts goroutines with a frame in a *Conn method of the
// client package (send, recv, runLoop, ping, Close, dispatch ...).
func goircGoroutines() (n int, dump string) {
	d := goroutineDump()
	for _, g := range strings.Split(d, "\n\n") {
		if strings.Contains(g, "github.com/fluffle/goirc/client.(*Conn).") {
			n++
			dump += g + "\n\n"
		}
	}
	return n, dump
}

// connGoroutines returns the goroutines that have a frame in a method of this
// particular *Conn (the receiver pointer is printed in the stack trace), so
// that leftovers of other scenarios in the same process are not counted.
func connGoroutines(c *client.Conn) (n int, dump string, kinds map[string]int) {
	ptr := fmt.Sprintf("(%p", c)
	kinds = map[string]int{}
	d := goroutineDump()
	for _, g := range strings.Split(d, "\n\n") {
		hit := false
		for _, ln := range strings.Split(g, "\n") {
			i := strings.Index(ln, "github.com/fluffle/goirc/client.(*Conn).")
			if i < 0 || !strings.Contains(ln, ptr) {
				continue
			}
			hit = true
			name := ln[i+len("github.com/fluffle/goirc/client.(*Conn)."):]
			if j := strings.IndexAny(name, "(."); j >= 0 {
				name = name[:j]
			}
			kinds[name]++
		}
		if hit {
			n++
			dump += g + "\n\n"
		}
	}
	return
}

// outQueue returns the client's current outgoing queue through reflection. It
// is used for clean-up only (to release user goroutines the harness left
// blocked in a send on a dead connection), never by an oracle; if the field
// is ever renamed the clean-up is skipped.
func outQueue(c *client.Conn) (q reflect.Value, ok bool) {
	defer func() {
		if recover() != nil {
			ok = false
		}
	}()
	f := reflect.ValueOf(c).Elem().FieldByName("out")
	if !f.IsValid() || f.Kind() != reflect.Chan {
		return reflect.Value{}, false
	}
	return reflect.NewAt(f.Type(), unsafe.Pointer(f.UnsafeAddr())).Elem(), true
}

// drainQueue empties q until pred() is true or the timeout expires.
func drainQueue(q reflect.Value, timeout time.Duration, pred func() bool) {
	deadline := time.Now().Add(timeout)
	for !pred() && time.Now().Before(deadline) {
		if _, ok := q.TryRecv(); !ok {
			time.Sleep(50 * time.Microsecond)
		}
	}
}

func waitCond(timeout time.Duration, cond func() bool) bool {
	deadline := time.Now().Add(timeout)
	sleep := 20 * time.Microsecond
	for {
		if cond() {
			return true
		}
		if time.Now().After(deadline) {
			return cond()
		}
		time.Sleep(sleep)
		if sleep < 2*time.Millisecond {
			sleep *= 2
		}
	}
}

// ---------------------------------------------------------------------------
// a real goirc client wired to a scripted server
// ---------------------------------------------------------------------------

type cliOpts struct {
	Nick       string
	Tracking   bool
	Flood      bool // true = flood control OFF (goirc's naming)
	PingFreq   time.Duration
	CtxDialer  bool
	Server     string
	Configure  func(*client.Config)
	NoSyncHook bool
}

type testClient struct {
	CreatedLo, CreatedHi time.Time // client.Client(cfg) ran between these instants
	C                    *client.Conn
	Cfg                  *client.Config
	S                    *ircsim.Session
	sync                 sync.Map // nonce -> chan struct{}
	seq                  atomic.Int64
}

func newTestClient(o cliOpts) *testClient {
	if o.Nick == "" {
		o.Nick = "me"
	}
	cfg := client.NewConfig(o.Nick, "ident", "Real Name")
	cfg.Flood = o.Flood
	cfg.PingFreq = o.PingFreq
	s := ircsim.NewSession()
	cfg.Proxy = s.ProxyURL(o.CtxDialer)
	cfg.Server = o.Server
	if cfg.Server == "" {
		cfg.Server = "irc.example.net:6667"
	}
	if o.Configure != nil {
		o.Configure(cfg)
	}
	createdLo := time.Now()
	c := client.Client(cfg)
	createdHi := time.Now()
	if o.Tracking {
		c.EnableStateTracking()
	}
	tc := &testClient{C: c, Cfg: cfg, S: s, CreatedLo: createdLo, CreatedHi: createdHi}
	if !o.NoSyncHook {
		c.HandleFunc("VSYNC", func(_ *client.Conn, l *client.Line) {
			if len(l.Args) == 0 {
				return
			}
			if ch, ok := tc.sync.Load(l.Args[0]); ok {
				select {
				case ch.(chan struct{}) <- struct{}{}:
				default:
				}
			}
		})
	}
	return tc
}

func (tc *testClient) release() { tc.S.Release() }

// connect calls Connect and waits for the registration lines so that the
// wire transcript position is known.
func (tc *testClient) connect() error {
	return tc.C.Connect()
}

func (tc *testClient) conn() *ircsim.Conn { return tc.S.Last() }

// syncIn sends a VSYNC marker and waits for the client's foreground handler
// to see it: everything sent before it has then been dispatched.
func (tc *testClient) syncIn(timeout time.Duration) bool {
	nonce := fmt.Sprintf("n%d", tc.seq.Add(1))
	ch := make(chan struct{}, 1)
	tc.sync.Store(nonce, ch)
	defer tc.sync.Delete(nonce)
	tc.conn().SendLine("VSYNC " + nonce)
	select {
	case <-ch:
		return true
	case <-time.After(timeout):
		return false
	}
}

// syncOut sends PING :nonce and waits for PONG :nonce on the wire: the
// client's event loop has processed the PING and the send goroutine has
// written everything queued before the PONG.
func (tc *testClient) syncOut(timeout time.Duration) bool {
	nonce := fmt.Sprintf("vq%dq", tc.seq.Add(1))
	c := tc.conn()
	c.SendLine("PING :" + nonce)
	want := "PONG :" + nonce + "\r\n"
	return c.WaitWritten(func(w string) bool { return strings.Contains(w, want) }, timeout)
}

// closeAndWait closes the client and waits for its goroutines to go away.
func (tc *testClient) shutdown() {
	done := make(chan struct{})
	go func() { tc.C.Close(); close(done) }()
	select {
	case <-done:
	case <-time.After(stallTimeout()):
	}
	tc.release()
}

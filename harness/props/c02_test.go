package props

import (
	"encoding/json"
	"fmt"
	"runtime"
	"strings"
	"sync"
	"testing"
	"time"

	"verifharness/evid"
	"verifharness/ircsim"

	sasl "github.com/emersion/go-sasl"
	"github.com/fluffle/goirc/client"
	"pgregory.net/rapid"
)

// ---------------------------------------------------------------------------
// C02 layer 1+2: in-process parser / accessor robustness
// ---------------------------------------------------------------------------

var c02Atoms = []string{
	"@", ":", " ", "!", ";", "=", "\\", "\x01", "#", "a", "1", "\t", "\r",
	"PRIVMSG", "NOTICE", "ACTION", "PING", "001", "433", "JOIN", "MODE", "353", "352", "CAP", "NICK", "AUTHENTICATE",
}

var builtinVerbs = map[string]bool{
	"REGISTER": true, "001": true, "433": true, "CTCP": true, "NICK": true, "PING": true, "CAP": true, "410": true,
	"AUTHENTICATE": true, "903": true, "904": true, "908": true,
	"JOIN": true, "KICK": true, "MODE": true, "PART": true, "QUIT": true, "TOPIC": true,
	"311": true, "324": true, "332": true, "352": true, "353": true, "671": true,
}

// probeLine runs the in-process oracle on one string: ParseLine and the
// accessors must not panic; Copy must work. Returns class + violation.
func probeLine(s string) (class string, v *Violation) {
	l, p := parseNoPanic(s)
	if p != nil {
		return "panic", violationf("C02", "ParseLine(%q) panicked: %v", s, p)
	}
	if l == nil {
		return "rejected", nil
	}
	if _, _, _, p := callAccessors(l); p != nil {
		return "panic", violationf("C02", "Text/Public/Target on ParseLine(%q) panicked: %v", s, p)
	}
	var cp interface{}
	func() {
		defer func() { cp = recover() }()
		c := l.Copy()
		_, _, _, _ = callAccessors(c)
	}()
	if cp != nil {
		return "panic", violationf("C02", "Copy of ParseLine(%q) panicked: %v", s, cp)
	}
	if builtinVerbs[l.Cmd] {
		return "builtin:" + l.Cmd + fmt.Sprintf("/%d", len(l.Args)), nil
	}
	return "unhandled", nil
}

func hasSpecial(s string) bool {
	return strings.ContainsAny(s, "@: !;=\\\x01#\t\r")
}

func TestC02_Enum(t *testing.T) {
	col := evid.New("C02", "all strings of 0..N atoms over a 26-atom alphabet (special bytes + handled verbs), each parsed and probed with Text/Target/Public/Copy; non-trivial = contains a special byte and is either rejected or dispatched to a built-in verb; distinct by construction")
	defer finish(t, col)
	N := envInt("VERIF_C02_N", 4)
	shard, shards := envInt("VERIF_SHARD", 0), envInt("VERIF_SHARDS", 1)
	var total, nontrivial int64
	classes := map[string]int64{}
	visit := func(s string) *Violation {
		cls, v := probeLine(s)
		if v != nil {
			writeReplay("TestC02_String", v, c02String{S: Q(s)})
			return v
		}
		total++
		if hasSpecial(s) && cls != "unhandled" {
			nontrivial++
		}
		classes[cls]++
		if total%50021 == 1 {
			col.Sample(map[string]interface{}{"line": Q(s), "class": cls})
		}
		return nil
	}
	var rec func(prefix string, depth int) *Violation
	rec = func(prefix string, depth int) *Violation {
		if v := visit(prefix); v != nil {
			return v
		}
		if depth == N {
			return nil
		}
		for _, a := range c02Atoms {
			if v := rec(prefix+a, depth+1); v != nil {
				return v
			}
		}
		return nil
	}
	var v *Violation
	if shard == 0 {
		v = visit("")
	}
	for i, a := range c02Atoms {
		if v != nil || N < 1 {
			break
		}
		if i%shards == shard {
			v = rec(a, 1)
		}
	}
	col.Enumerated(total, nontrivial)
	for k, n := range classes {
		col.Class(k, n)
	}
	col.Set("enum_max_atoms", int64(N))
	col.Set("exhaustive_enum", v == nil)
	if v != nil {
		t.Fatalf("VIOLATION C02: %s", v.Msg)
	}
}

type c02String struct {
	S Q `json:"s"`
}

func TestC02_String_Replay(t *testing.T) {
	var s c02String
	loadReplay(t, &s)
	if _, v := probeLine(string(s.S)); v != nil {
		t.Fatalf("REPRODUCED %s", v.Msg)
	}
}

func genHostileLine(t *rapid.T, label string) string {
	n := rapid.IntRange(0, 12).Draw(t, label+"_n")
	var b strings.Builder
	for i := 0; i < n; i++ {
		switch rapid.IntRange(0, 5).Draw(t, label+"_kind") {
		case 0:
			b.WriteByte(rapid.Byte().Draw(t, label+"_byte"))
		case 1:
			b.WriteString(rapid.SampledFrom([]string{" ", " ", " :", ":", "  "}).Draw(t, label+"_sp"))
		default:
			b.WriteString(rapid.SampledFrom(c02Atoms).Draw(t, label+"_atom"))
		}
	}
	return strings.ReplaceAll(b.String(), "\n", "\r")
}

func TestC02_String(t *testing.T) {
	col := evid.New("C02", "random strings over all bytes with the special atoms over-weighted; non-trivial = contains a special byte and is either rejected or dispatched to a built-in verb; distinct by string")
	defer finish(t, col)
	rapid.Check(t, func(t *rapid.T) {
		s := genHostileLine(t, "line")
		cls, v := probeLine(s)
		col.Case(s, hasSpecial(s) && cls != "unhandled", cls)
		col.Sample(map[string]interface{}{"line": Q(s), "class": cls})
		if v != nil {
			failRapid(t, "TestC02_String", v, c02String{S: Q(s)})
		}
	})
}

func FuzzC02(f *testing.F) {
	for _, s := range []string{"@a ", ":src ", "PRIVMSG x", ":a@b!c X", "   ", "NOTICE", "PRIVMSG :a", "PRIVMSG", "PRIVMSG :",
		"@a=b;c :n!u@h PRIVMSG #c :\x01ACTION x\x01", ":irc.server.org 001 test :Welcome test!u@h", "PING :x", "@k=\\", ":n!u@h NOTICE #c :\x01\x01"} {
		f.Add(s)
	}
	f.Fuzz(func(t *testing.T, s string) {
		if _, v := probeLine(s); v != nil {
			t.Fatalf("VIOLATION C02: %s", v.Msg)
		}
	})
}

// ---------------------------------------------------------------------------
// C02 layer 3: a live connection survives hostile lines
// ---------------------------------------------------------------------------

type c02Session struct {
	Tracking bool `json:"tracking"`
	Sasl     bool `json:"sasl"`
	Burst    bool `json:"burst"`
	// Caps: capability negotiation is on, the application wants the common IRCv3 capabilities and the
	// server grants them all before the session's lines arrive
	Caps bool `json:"caps,omitempty"`
	// Lines: K=0 probe (hostile), K=1 well-formed numbered PRIVMSG, K=2 marker
	Lines []c02Line `json:"lines"`
	// TempErrAt: (not in burst mode) the numbered line with this index reaches the client in two reads with a
	// transient read error (Temporary() == true) between them, TempErrMid says where it is cut; -1 never
	TempErrAt  int  `json:"temp_err_at"`
	TempErrMid bool `json:"temp_err_mid_text"`
}

type c02Line struct {
	K   int `json:"k"`
	S   Q   `json:"s"`
	F   int `json:"form,omitempty"` // K=1: which well-formed shape carries the number
	Pad int `json:"pad,omitempty"`  // K=1: bytes of padding after the number; K=0: the probe is preceded by this many filler bytes
	T   int `json:"term,omitempty"` // line terminator: 0 CRLF, 1 bare LF, 2 CRLF + blank CRLF line, 3 LF + blank LF line, 4 CR CR LF
	// K=0 with Pad: 0 a long unknown-verb line ending in the probe; 1 ':' + Pad non-blank bytes (no verb: the
	// parser rejects it); 2 '@' + Pad bytes of tags and nothing else (rejected too)
	PadForm int `json:"pad_form,omitempty"`
}

var c02Terms = []string{"\r\n", "\n", "\r\n\r\n", "\n\n", "\r\r\n"}

func c02Pad(n int) string {
	if n <= 0 {
		return ""
	}
	return " " + strings.Repeat("p", n)
}

var c02Forms = []string{
	":vsrc!v@v PRIVMSG #vchan :%s",
	"@t=1;u=x\\sy :vsrc!v@v PRIVMSG #vchan :%s",
	":vsrc!v@v NOTICE me :%s",
	"@time=2020-01-01T00:00:00Z;+ex/k :vsrc!v@v PRIVMSG  #vchan   :%s",
	"@a :vsrc!v@v notice &x :%s",
}

var probeParams = []string{"", "x", "x", "me", "me", "#c", "#c", "#c", "#d", "#d", "other", "solo", "solo", ":", ":me", "1", "LS", "ACK", "NAK", "sasl", "+", "*", "@me", "+o", "+o", "-k", "+l", "+k", "+v-o", "H", "H*", "me!u@h", "=", "\x01PING\x01", "\x01VERSION\x01", "a b"}

// c02Warmup puts a tracked client on two channels with some other users so that hostile lines reach
// the state handlers' deeper paths.
var c02Warmup = []string{
	":irc.server 001 me :Welcome me!ident@host",
	":me!ident@host JOIN #c",
	":irc.server 353 me = #c :me @x +other solo",
	":irc.server 366 me #c :End",
	":me!ident@host JOIN :#d",
	":irc.server 353 me = #d :me x",
	":other!o@h JOIN #d",
}

// c02Caps: capabilities an application may want and a server may grant; several of them change what
// arrives (tags on every line, extra JOIN parameters, batches)
const c02Caps = "server-time account-tag message-tags batch echo-message extended-join multi-prefix account-notify away-notify chghost labeled-response userhost-in-names setname invite-notify cap-notify"

// c02TagProbes: tag sections with the well-known keys and empty, valueless, malformed or huge values
var c02TagProbes = []string{"@time= ", "@time ", "@time=Z ", "@time=2011-10-19T16:40:51.620 ", "@time=garbage ", "@time=9999999999999999999 ", "@time=2011-10-19T16:40:51.620Z;time= ",
	"@account= ", "@account ", "@batch= ", "@batch ", "@batch=+ ", "@batch=- ", "@label= ", "@msgid= ", "@msgid;time;account;batch;label ", "@+typing= ", "@+ ", "@=x ", "@;; ", "@time=\\ ", "@time=\\"}

func genBuiltinProbe(t *rapid.T) string {
	verbs := []string{"001", "433", "NICK", "PING", "CAP", "410", "AUTHENTICATE", "903", "904", "908", "JOIN", "KICK", "MODE", "PART", "QUIT", "TOPIC", "311", "324", "332", "352", "353", "671", "PRIVMSG", "NOTICE", "REGISTER", "CONNECTED", "DISCONNECTED", "ERROR",
		"JOIN", "JOIN", "KICK", "MODE", "MODE", "PART", "QUIT", "NICK", "NICK", "TOPIC", "311", "324", "332", "352", "352", "353", "353", "671"}
	var b strings.Builder
	if rapid.IntRange(0, 9).Draw(t, "cap_shape") == 0 {
		// capability lists with odd tokens (IRCv3.2 values, empty names, removals)
		toks := genUnits(t, "cap_tokens", []string{"a ", "b ", "sasl ", "=draft ", "a=b ", "= ", "- ", "-a ", "multi-prefix ", "=x=y "}, 1, 4)
		return ":irc.server CAP " + rapid.SampledFrom([]string{"*", "me"}).Draw(t, "cap_target") + " " + rapid.SampledFrom([]string{"LS", "ACK", "NAK", "LS *", "NEW", "DEL"}).Draw(t, "cap_sub") + " :" + strings.TrimSpace(toks)
	}
	if rapid.IntRange(0, 11).Draw(t, "long_ctcp") == 0 {
		// a CTCP request the client answers by itself (PING echoes its argument, VERSION does not), with an
		// argument far beyond what fits one reply: a blank-free run of continuation bytes, of multi-byte
		// characters, of dots, or words
		unit := rapid.SampledFrom([]string{"\x80", "\xbf", "\u00e9", "\u65e5", ".", "x", "ab ", "\xc3"}).Draw(t, "ctcp_unit")
		n := rapid.SampledFrom([]int{440, 449, 450, 451, 600, 1400, 3000}).Draw(t, "ctcp_len")
		verb := rapid.SampledFrom([]string{"PING", "PING", "VERSION", "ping", "TIME", "ACTION"}).Draw(t, "ctcp_verb")
		return ":x!u@h " + rapid.SampledFrom([]string{"PRIVMSG", "NOTICE"}).Draw(t, "ctcp_carrier") + " me :\x01" + verb + " " + strings.Repeat(unit, n/len(unit)+1) + "\x01"
	}
	if rapid.IntRange(0, 4).Draw(t, "membership_shape") == 0 {
		// well-formed membership events about the wrong / absent / half-known parties
		nk := func(l string) string { return rapid.SampledFrom([]string{"me", "x", "other", "solo", "nobody", ""}).Draw(t, l) }
		ch := func() string { return rapid.SampledFrom([]string{"#c", "#d", "#zz", ""}).Draw(t, "mchan") }
		switch rapid.IntRange(0, 6).Draw(t, "mshape") {
		case 0:
			return ":" + nk("mnick") + "!u@h PART " + ch()
		case 1:
			return ":x!u@h KICK " + ch() + " " + nk("mnick") + " :r"
		case 2:
			return ":" + nk("mnick") + "!u@h JOIN " + ch()
		case 3:
			return ":x!u@h MODE " + ch() + " " + rapid.SampledFrom([]string{"+o", "-o", "+v", "+ov", "+k"}).Draw(t, "mmode") + " " + nk("mnick") + " " + nk("mnick2")
		case 4:
			return ":" + nk("mnick") + "!u@h NICK :" + nk("mnick2")
		case 5:
			return ":" + nk("mnick") + "!u@h QUIT :bye"
		}
		return ":irc.server 353 me = " + ch() + " :" + nk("mnick") + " @" + nk("mnick2")
	}
	if rapid.IntRange(0, 5).Draw(t, "tag_probe") == 0 {
		b.WriteString(rapid.SampledFrom(c02TagProbes).Draw(t, "tag_section"))
	}
	switch rapid.IntRange(0, 7).Draw(t, "probe_src") {
	case 0:
		b.WriteString(":me!ident@host ")
	case 1:
		b.WriteString(":other!u@h ")
	case 2:
		b.WriteString(":irc.server ")
	case 3:
		b.WriteString("@t=1;u :x!y@z ")
	case 4:
		b.WriteString(":x ")
	case 5:
		b.WriteString(":nobody!n@h ")
	case 6:
		b.WriteString(":solo!s@h ")
	}
	b.WriteString(rapid.SampledFrom(verbs).Draw(t, "probe_verb"))
	n := rapid.IntRange(0, 8).Draw(t, "probe_nparams")
	for i := 0; i < n; i++ {
		p := rapid.SampledFrom(probeParams).Draw(t, "probe_param")
		if strings.Contains(p, " ") || p == "" {
			// only valid as a trailing: emit and stop
			b.WriteString(" :" + p)
			break
		}
		b.WriteString(" " + p)
	}
	if rapid.IntRange(0, 3).Draw(t, "probe_trailing") == 0 {
		b.WriteString(" :" + rapid.SampledFrom([]string{"", "x", "0 real name", "a b c", "@me +x %y", "\x01PING 1\x01", "\x01VERSION\x01", "\x01ACTION\x01", "me!u@h", "Welcome me!u@h"}).Draw(t, "probe_trl"))
	}
	return b.String()
}

func genC02Session(t *rapid.T) *c02Session {
	s := &c02Session{
		Tracking: rapid.Bool().Draw(t, "tracking"),
		Sasl:     rapid.IntRange(0, 3).Draw(t, "sasl") == 0,
		Burst:    rapid.Bool().Draw(t, "burst"),
		Caps:     rapid.IntRange(0, 2).Draw(t, "caps") == 0,
	}
	n := rapid.IntRange(5, 60).Draw(t, "nlines")
	seq := 0
	for i := 0; i < n; i++ {
		switch rapid.IntRange(0, 5).Draw(t, "line_kind") {
		case 0, 1, 2:
			s.Lines = append(s.Lines, c02Line{K: 0, S: Q(genBuiltinProbe(t))})
		case 3:
			ln := c02Line{K: 0, S: Q(genHostileLine(t, "hostile"))}
			if rapid.IntRange(0, 5).Draw(t, "long_probe") == 0 {
				// a very long unknown-verb line whose tail looks like a message of ours: it must stay ONE line
				ln.S = Q(":vsrc!v@v PRIVMSG #vchan :Sq7Gz-9999")
				ln.Pad = rapid.SampledFrom([]int{4000, 4050, 4090, 4095, 4096, 4097, 4100, 8185, 8192, 9000, 65530, 70000}).Draw(t, "probe_pad") - rapid.IntRange(0, 40).Draw(t, "probe_pad_off")
				ln.PadForm = rapid.SampledFrom([]int{0, 0, 1, 2}).Draw(t, "probe_pad_form")
			}
			s.Lines = append(s.Lines, ln)
		default:
			seq++
			ln := c02Line{K: 1, S: Q(fmt.Sprintf("%d", seq)), F: rapid.IntRange(0, len(c02Forms)-1).Draw(t, "form")}
			if rapid.IntRange(0, 7).Draw(t, "long_numbered") == 0 {
				ln.Pad = rapid.SampledFrom([]int{3900, 4000, 4040, 4096, 4200, 8192, 9000, 65500, 70000}).Draw(t, "pad") + rapid.IntRange(0, 60).Draw(t, "pad_off")
			}
			s.Lines = append(s.Lines, ln)
		}
	}
	seq++
	s.Lines = append(s.Lines, c02Line{K: 1, S: Q(fmt.Sprintf("%d", seq))})
	for i := range s.Lines {
		s.Lines[i].T = rapid.SampledFrom([]int{0, 0, 0, 0, 1, 1, 2, 3, 4}).Draw(t, "term")
	}
	s.TempErrAt = -1
	if !s.Burst && rapid.IntRange(0, 3).Draw(t, "temp_err") == 0 {
		var numbered []int
		for i, ln := range s.Lines {
			if ln.K == 1 {
				numbered = append(numbered, i)
			}
		}
		s.TempErrAt = rapid.SampledFrom(numbered).Draw(t, "temp_err_at")
		s.TempErrMid = rapid.Bool().Draw(t, "temp_err_mid")
	}
	return s
}

func runC02Session(s *c02Session) *Violation {
	tc := newTestClient(cliOpts{Flood: true, Tracking: s.Tracking, NoSyncHook: true, Configure: func(cfg *client.Config) {
		if s.Sasl {
			cfg.Sasl = sasl.NewPlainClient("", "user", "pw")
			cfg.Capabilites = []string{"a", "b"}
		}
		if s.Caps {
			cfg.EnableCapabilityNegotiation = true
			cfg.Capabilites = append(cfg.Capabilites, strings.Fields(c02Caps)...)
		}
	}})
	defer tc.shutdown()
	var mu sync.Mutex
	var log []string
	const pfx = "Sq7Gz-"
	rec := func(_ *client.Conn, l *client.Line) {
		if txt := l.Text(); strings.HasPrefix(txt, pfx) && l.Nick == "vsrc" {
			mu.Lock()
			log = append(log, txt[len(pfx):])
			mu.Unlock()
		} else if strings.Contains(l.Raw, pfx) && !strings.Contains(l.Raw, "ZZLONG") {
			// one of our numbered messages, but not as it was sent
			mu.Lock()
			log = append(log, fmt.Sprintf("<mangled: %.80q>", l.Raw))
			mu.Unlock()
		}
	}
	tc.C.HandleFunc("PRIVMSG", rec)
	tc.C.HandleFunc("NOTICE", rec)
	// an application-side one-shot handler that removes itself the first time it runs
	var oneShot client.Remover
	var once sync.Once
	oneShot = tc.C.HandleFunc("PRIVMSG", func(_ *client.Conn, l *client.Line) {
		once.Do(func() { oneShot.Remove() })
	})
	if err := tc.connect(); err != nil {
		return violationf("C02", "connect: %v", err)
	}
	if s.Caps {
		c := tc.conn()
		if !c.WaitWritten(func(w string) bool { return strings.Contains(w, "CAP LS") }, stallTimeout()) {
			return violationf("C02", "capability negotiation enabled but no CAP LS was sent")
		}
		c.SendLine(":irc.server CAP * LS :" + c02Caps)
		if !c.WaitWritten(func(w string) bool { return strings.Contains(w, "CAP REQ") }, stallTimeout()) {
			return violationf("C02", "no CAP REQ after the server listed the wanted capabilities")
		}
		ls, _ := SplitCRLF(c.Written())
		for _, l := range ls {
			if strings.HasPrefix(l, "CAP REQ :") {
				c.SendLine(":irc.server CAP me ACK :" + l[len("CAP REQ :"):])
			}
		}
	}
	// ... and an application goroutine that keeps asking the client questions while lines arrive
	stopPoll := make(chan struct{})
	var pollWG sync.WaitGroup
	pollWG.Add(1)
	go func() {
		defer pollWG.Done()
		for {
			select {
			case <-stopPoll:
				return
			default:
			}
			tc.C.SupportsCapability("sasl")
			tc.C.HasCapability("a")
			tc.C.Connected()
			// (not Me() or String(): on an untracked client they hand out the very struct the built-in
			// handlers update, which goirc does not promise to be safe from another goroutine)
			if st := tc.C.StateTracker(); st != nil {
				st.GetNick("x")
				st.GetChannel("#c")
				st.IsOn("#c", "me")
				_ = st.String()
			}
			runtime.Gosched()
		}
	}()
	defer func() {
		close(stopPoll)
		// (bounded: if the client left one of its locks held, the poller is stuck behind it - the
		// scenario's own verdict says so, the clean-up must not hang on it)
		done := make(chan struct{})
		go func() { pollWG.Wait(); close(done) }()
		select {
		case <-done:
		case <-time.After(2 * time.Second):
		}
	}()
	c := tc.conn()
	var want []string
	var all strings.Builder
	if s.Tracking {
		for _, w := range c02Warmup {
			c.SendLine(w)
		}
	}
	for li, ln := range s.Lines {
		var wire string
		if ln.K == 1 {
			wire = fmt.Sprintf(c02Forms[ln.F%len(c02Forms)], pfx+string(ln.S)+c02Pad(ln.Pad))
			want = append(want, string(ln.S)+c02Pad(ln.Pad))
		} else {
			wire = strings.ReplaceAll(string(ln.S), "\n", " ")
			if ln.Pad > 0 {
				switch ln.PadForm {
				case 1:
					wire = ":" + strings.Repeat("f", ln.Pad)
				case 2:
					wire = "@" + strings.Repeat("k=v;", ln.Pad/4)
				default:
					wire = "ZZLONG " + strings.Repeat("f", ln.Pad) + wire
				}
			}
		}
		term := c02Terms[ln.T%len(c02Terms)]
		if s.Burst {
			all.WriteString(wire + term)
		} else if li == s.TempErrAt && ln.K == 1 {
			cut := strings.Index(wire, ":vsrc!v@v ") + len(":vsrc!v@v ")
			if s.TempErrMid {
				cut = strings.Index(wire, pfx) + 3
			}
			c.Send(wire[:cut])
			c.SendErrOnce(ircsim.TempError{})
			c.Send(wire[cut:] + term)
		} else {
			c.Send(wire + term)
		}
	}
	if s.Burst {
		c.Send(all.String())
	}
	ok := tc.syncOut(stallTimeout())
	if !ok && s.TempErrAt >= 0 && !tc.C.Connected() {
		// a read error - transient or not - may end the connection; what was delivered must still be lines
		// that were sent, unaltered and in order
		mu.Lock()
		got := append([]string(nil), log...)
		mu.Unlock()
		// (lines that were read but not yet dispatched when the error struck may be discarded by the
		// teardown, so what was delivered is a subsequence of what was sent, not necessarily a prefix)
		j := 0
		for _, w := range want {
			if j < len(got) && got[j] == w {
				j++
			}
		}
		if j != len(got) {
			clip := func(in []string) []string {
				out := []string{}
				for _, x := range in {
					if len(x) > 24 {
						x = fmt.Sprintf("%s...(%d bytes)", x[:12], len(x))
					}
					out = append(out, x)
				}
				return out
			}
			return violationf("C02", "after a transient read error in the middle of a line the client delivered %q, sent were %q", clip(got), clip(want))
		}
		return nil
	}
	if !ok {
		mu.Lock()
		got := append([]string(nil), log...)
		mu.Unlock()
		n, dump := goircGoroutines()
		return &Violation{Property: "C02", Msg: fmt.Sprintf("client stopped processing: final PING never answered; %d of %d well-formed lines delivered; %d goirc goroutines", len(got), len(want), n), Detail: dump}
	}
	mu.Lock()
	got := append([]string(nil), log...)
	mu.Unlock()
	if strings.Join(got, ",") != strings.Join(want, ",") {
		clipAll := func(in []string) []string {
			out := []string{}
			for _, x := range in {
				if len(x) > 24 {
					x = fmt.Sprintf("%s...(%d bytes)", x[:12], len(x))
				}
				out = append(out, x)
			}
			return out
		}
		return violationf("C02", "well-formed lines delivered %v, want %v (in order, once each, unaltered)", clipAll(got), clipAll(want))
	}
	if !tc.C.Connected() {
		return violationf("C02", "client disconnected itself during a session of server lines")
	}
	return nil
}

func (s *c02Session) key() string {
	b, _ := json.Marshal(s)
	return string(b)
}

func TestC02_Session(t *testing.T) {
	col := evid.New("C02", "live sessions of 5..60 lines: built-in verbs with too few / empty / odd parameters, hostile strings, and numbered well-formed lines that must all be delivered in order; non-trivial = session holds >=1 probe line followed by >=1 numbered line; distinct by session")
	defer finish(t, col)
	rapid.Check(t, func(t *rapid.T) {
		s := genC02Session(t)
		journal(s)
		probes := 0
		for _, l := range s.Lines {
			if l.K == 0 {
				probes++
				if pl, _ := parseNoPanic(string(l.S)); pl != nil && builtinVerbs[pl.Cmd] {
					col.Class(fmt.Sprintf("session_probe:%s/%d", pl.Cmd, len(pl.Args)), 1)
				}
			}
		}
		v := runC02Session(s)
		col.Case(s.key(), probes > 0, fmt.Sprintf("tracking=%v", s.Tracking), fmt.Sprintf("sasl=%v", s.Sasl), fmt.Sprintf("burst=%v", s.Burst))
		if len(s.Lines) < 12 {
			col.Sample(s)
		}
		if v != nil {
			failRapid(t, "TestC02_Session", v, s)
		}
	})
}

func TestC02_Session_Replay(t *testing.T) {
	var s c02Session
	loadReplay(t, &s)
	if v := runC02Session(&s); v != nil {
		t.Fatalf("REPRODUCED %s", v.Msg)
	}
}

func TestC02_Regress(t *testing.T) {
	col := evid.New("C02", "regression inputs")
	defer finish(t, col)
	for _, s := range []string{"@a ", ":src ", "   ", "PRIVMSG x", "PRIVMSG :a", "NOTICE", ":a@b!c X", "PRIVMSG", "PRIVMSG :", "@a", ":src", "@ :", "@;= : "} {
		cls, v := probeLine(s)
		col.Case(s, true, cls)
		col.Sample(map[string]interface{}{"line": Q(s), "class": cls})
		if v != nil {
			writeReplay("TestC02_String", v, c02String{S: Q(s)})
			t.Errorf("VIOLATION C02: %s", v.Msg)
		}
	}
	sess := &c02Session{Tracking: true, Lines: []c02Line{{K: 0, S: "@a "}, {K: 0, S: ":src "}, {K: 0, S: "PRIVMSG x"}, {K: 0, S: ":a@b!c X"}, {K: 0, S: "PING"}, {K: 0, S: "433"}, {K: 0, S: "JOIN"}, {K: 0, S: "CAP"}, {K: 1, S: "1"}}}
	if v := runC02Session(sess); v != nil {
		writeReplay("TestC02_Session", v, sess)
		t.Errorf("VIOLATION C02: %s", v.Msg)
	}
	col.Case(sess.key(), true, "session")
}

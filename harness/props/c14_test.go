package props

import (
	"encoding/json"
	"fmt"
	"reflect"
	"runtime"
	"sort"
	"sync"
	"sync/atomic"
	"testing"
	"time"

	"verifharness/evid"
	"verifharness/model"

	"github.com/anishathalye/porcupine"
	"github.com/fluffle/goirc/logging"
	"github.com/fluffle/goirc/state"
	"pgregory.net/rapid"
)

// ---------------------------------------------------------------------------
// C14 leg A: returned values are private snapshots
// ---------------------------------------------------------------------------

type c14Scenario struct {
	Setup []trOp `json:"setup"`
	Query trOp   `json:"query"`
	Later []trOp `json:"later"`
}

func deepCopyResult(r trResult) trResult {
	c := r
	if r.Nick != nil {
		n := *r.Nick
		if r.Nick.Modes != nil {
			m := *r.Nick.Modes
			n.Modes = &m
		}
		n.Channels = map[string]*state.ChanPrivs{}
		for k, v := range r.Nick.Channels {
			p := *v
			n.Channels[k] = &p
		}
		c.Nick = &n
	}
	if r.Chan != nil {
		ch := *r.Chan
		if r.Chan.Modes != nil {
			m := *r.Chan.Modes
			ch.Modes = &m
		}
		ch.Nicks = map[string]*state.ChanPrivs{}
		for k, v := range r.Chan.Nicks {
			p := *v
			ch.Nicks[k] = &p
		}
		c.Chan = &ch
	}
	if r.Privs != nil {
		p := *r.Privs
		c.Privs = &p
	}
	return c
}

func flipPrivs(p *state.ChanPrivs) {
	p.Owner, p.Admin, p.Op, p.HalfOp, p.Voice = !p.Owner, !p.Admin, !p.Op, !p.HalfOp, !p.Voice
}

// scribbleResult changes everything reachable from a returned value.
func scribbleResult(r trResult) {
	if n := r.Nick; n != nil {
		n.Nick, n.Ident, n.Host, n.Name = "SCRIBBLE", "S", "S", "S"
		if n.Modes != nil {
			n.Modes.Bot, n.Modes.Invisible, n.Modes.Oper, n.Modes.WallOps, n.Modes.HiddenHost, n.Modes.SSL = !n.Modes.Bot, !n.Modes.Invisible, !n.Modes.Oper, !n.Modes.WallOps, !n.Modes.HiddenHost, !n.Modes.SSL
		}
		for _, p := range n.Channels {
			flipPrivs(p)
		}
		n.Channels["#scribble"] = &state.ChanPrivs{Op: true}
		for k := range n.Channels {
			if k != "#scribble" {
				delete(n.Channels, k)
				break
			}
		}
	}
	if c := r.Chan; c != nil {
		c.Name, c.Topic = "SCRIBBLE", "SCRIBBLE"
		if c.Modes != nil {
			c.Modes.Private, c.Modes.Secret, c.Modes.ProtectedTopic, c.Modes.NoExternalMsg, c.Modes.Moderated = !c.Modes.Private, !c.Modes.Secret, !c.Modes.ProtectedTopic, !c.Modes.NoExternalMsg, !c.Modes.Moderated
			c.Modes.InviteOnly, c.Modes.OperOnly, c.Modes.SSLOnly, c.Modes.Registered, c.Modes.AllSSL = !c.Modes.InviteOnly, !c.Modes.OperOnly, !c.Modes.SSLOnly, !c.Modes.Registered, !c.Modes.AllSSL
			c.Modes.Key, c.Modes.Limit = "SCRIBBLE", 4242
		}
		for _, p := range c.Nicks {
			flipPrivs(p)
		}
		c.Nicks["scribble"] = &state.ChanPrivs{Voice: true}
		for k := range c.Nicks {
			if k != "scribble" {
				delete(c.Nicks, k)
				break
			}
		}
	}
	if r.Privs != nil {
		flipPrivs(r.Privs)
	}
}

// pointersOf collects the addresses of every mutable object reachable from a result.
func pointersOf(r trResult) map[uintptr]string {
	out := map[uintptr]string{}
	if n := r.Nick; n != nil {
		out[reflect.ValueOf(n).Pointer()] = "*Nick"
		if n.Modes != nil {
			out[reflect.ValueOf(n.Modes).Pointer()] = "*NickMode"
		}
		if n.Channels != nil {
			out[reflect.ValueOf(n.Channels).Pointer()] = "Nick.Channels map"
		}
		for _, p := range n.Channels {
			out[reflect.ValueOf(p).Pointer()] = "*ChanPrivs"
		}
	}
	if c := r.Chan; c != nil {
		out[reflect.ValueOf(c).Pointer()] = "*Channel"
		if c.Modes != nil {
			out[reflect.ValueOf(c.Modes).Pointer()] = "*ChanMode"
		}
		if c.Nicks != nil {
			out[reflect.ValueOf(c.Nicks).Pointer()] = "Channel.Nicks map"
		}
		for _, p := range c.Nicks {
			out[reflect.ValueOf(p).Pointer()] = "*ChanPrivs"
		}
	}
	if r.Privs != nil {
		out[reflect.ValueOf(r.Privs).Pointer()] = "*ChanPrivs"
	}
	return out
}

func sameResultValue(a, b trResult) bool {
	return reflect.DeepEqual(a.Nick, b.Nick) && reflect.DeepEqual(a.Chan, b.Chan) && reflect.DeepEqual(a.Privs, b.Privs) && a.OK == b.OK
}

var c14ValueOps = []string{"NewNick", "GetNick", "ReNick", "DelNick", "NickInfo", "NickModes", "NewChannel", "GetChannel", "DelChannel", "Topic", "ChannelModes", "Me", "IsOn", "Associate"}

func runC14A(sc *c14Scenario) (nontrivial bool, v *Violation) {
	st := state.NewTracker("me")
	m := model.NewTracker("me")
	for _, o := range sc.Setup {
		applyReal(st, o)
		applyModel(m, o)
	}
	full := &c12Scenario{Me: "me", Ops: append(append(append([]trOp{}, sc.Setup...), sc.Query), sc.Later...)}
	nicks, chans := universeOf(full)
	if d := probeTracker(st, m, nicks, chans); d != "" {
		return false, nil // the history itself disagrees with the model: C12's subject
	}
	// the value under test, and a second one from an identical read for the sharing check
	got := applyReal(st, sc.Query)
	applyModel(m, sc.Query)
	var again []trResult
	switch sc.Query.Op {
	case "GetNick", "GetChannel", "Me", "IsOn":
		again = append(again, applyReal(st, sc.Query))
	}
	// related reads that could share storage with the value
	if got.Nick != nil {
		again = append(again, applyReal(st, trOp{Op: "GetNick", A: got.Nick.Nick}))
		for c := range got.Nick.Channels {
			again = append(again, applyReal(st, trOp{Op: "GetChannel", A: c}), applyReal(st, trOp{Op: "IsOn", A: c, B: got.Nick.Nick}))
		}
	}
	if got.Chan != nil {
		again = append(again, applyReal(st, trOp{Op: "GetChannel", A: got.Chan.Name}))
		for n := range got.Chan.Nicks {
			again = append(again, applyReal(st, trOp{Op: "GetNick", A: n}))
		}
	}
	ptrs := pointersOf(got)
	for _, o := range again {
		for p, what := range pointersOf(o) {
			if w2, shared := ptrs[p]; shared {
				return true, violationf("C14", "%s returned a value whose %s is the same object as the %s of another returned value", sc.Query, w2, what)
			}
		}
	}
	nontrivial = (got.Nick != nil && len(got.Nick.Channels) > 0) || (got.Chan != nil && len(got.Chan.Nicks) > 0) || got.Privs != nil
	keep := deepCopyResult(got)
	// (ii) later tracker changes must not alter the value returned earlier
	for i, o := range sc.Later {
		applyReal(st, o)
		applyModel(m, o)
		if !sameResultValue(got, keep) {
			return nontrivial, violationf("C14", "the value returned by %s changed when the tracker later executed %s (step %d): now nick=%s chan=%s privs=%s", sc.Query, o, i, fmtNick(got.Nick), fmtChan(got.Chan), fmtPrivs(got.Privs, got.OK))
		}
	}
	// (i) changing the value must not alter the tracker
	scribbleResult(got)
	for _, o := range again {
		scribbleResult(o)
	}
	if d := probeTracker(st, m, nicks, chans); d != "" {
		return nontrivial, violationf("C14", "after scribbling over the value returned by %s the tracker changed: %s", sc.Query, d)
	}
	return nontrivial, nil
}

func genC14A(t *rapid.T) *c14Scenario {
	sc := &c14Scenario{}
	m := model.NewTracker("me")
	if rapid.IntRange(0, 3).Draw(t, "warmup") > 0 {
		// a populated tracker: two channels, two other nicks, memberships with privileges
		for _, o := range []trOp{{Op: "NewChannel", A: "#x"}, {Op: "NewChannel", A: "#y"}, {Op: "NewNick", A: "a"}, {Op: "NewNick", A: "b"},
			{Op: "Associate", A: "#x", B: "me"}, {Op: "Associate", A: "#x", B: "a"}, {Op: "Associate", A: "#y", B: "me"}, {Op: "Associate", A: "#y", B: "a"}, {Op: "Associate", A: "#y", B: "b"},
			{Op: "ChannelModes", A: "#x", B: "+ov", Args: []string{"me", "a"}}, {Op: "NickInfo", A: "a", B: "i", C: "h", D: "r"}} {
			applyModel(m, o)
			sc.Setup = append(sc.Setup, o)
		}
	}
	for i, n := 0, rapid.IntRange(0, 40).Draw(t, "nsetup"); i < n; i++ {
		o := genTrOp(t, m)
		applyModel(m, o)
		sc.Setup = append(sc.Setup, o)
	}
	// the value-returning call under test: mostly aimed at names that exist and have memberships
	{
		var nicks, chans []string
		for k := range m.Nicks {
			nicks = append(nicks, k)
		}
		for k := range m.Chans {
			chans = append(chans, k)
		}
		sort.Strings(nicks)
		sort.Strings(chans)
		var members []model.MemberKey
		for k := range m.Member {
			members = append(members, k)
		}
		sort.Slice(members, func(i, j int) bool { return members[i].Chan+"/"+members[i].Nick < members[j].Chan+"/"+members[j].Nick })
		pick := func(pool []string, label string) string {
			if len(pool) == 0 {
				return "nobody"
			}
			return rapid.SampledFrom(pool).Draw(t, label)
		}
		var o trOp
		switch k := rapid.SampledFrom(c14ValueOps).Draw(t, "query_op"); k {
		case "NewNick":
			o = trOp{Op: k, A: rapid.SampledFrom([]string{"fresh1", "fresh2", "a"}).Draw(t, "fresh")}
		case "NewChannel":
			o = trOp{Op: k, A: rapid.SampledFrom([]string{"#fresh", "#x"}).Draw(t, "freshc")}
		case "GetNick", "DelNick":
			o = trOp{Op: k, A: pick(nicks, "qn")}
		case "ReNick":
			o = trOp{Op: k, A: pick(nicks, "qn"), B: rapid.SampledFrom([]string{"renamed", "a", "b"}).Draw(t, "qneu")}
		case "NickInfo":
			o = trOp{Op: k, A: pick(nicks, "qn"), B: "qi", C: "qh", D: "qr"}
		case "NickModes":
			o = trOp{Op: k, A: pick(nicks, "qn"), B: "+iw"}
		case "GetChannel", "DelChannel":
			o = trOp{Op: k, A: pick(chans, "qc")}
		case "Topic":
			o = trOp{Op: k, A: pick(chans, "qc"), B: "qtopic"}
		case "ChannelModes":
			c := pick(chans, "qc")
			ms, args := genModeString(t, m, c)
			o = trOp{Op: k, A: c, B: ms, Args: args}
		case "IsOn":
			if len(members) > 0 {
				mk := rapid.SampledFrom(members).Draw(t, "qm")
				o = trOp{Op: k, A: mk.Chan, B: mk.Nick}
			} else {
				o = trOp{Op: k, A: pick(chans, "qc"), B: pick(nicks, "qn")}
			}
		case "Associate":
			o = trOp{Op: k, A: pick(chans, "qc"), B: pick(nicks, "qn")}
		default:
			o = trOp{Op: "Me"}
		}
		sc.Query = o
		applyModel(m, o)
	}
	for i, n := 0, rapid.IntRange(1, 20).Draw(t, "nlater"); i < n; i++ {
		o := genTrOp(t, m)
		applyModel(m, o)
		sc.Later = append(sc.Later, o)
	}
	return sc
}

func TestC14_Snapshots(t *testing.T) {
	col := evid.New("C14", "after a random tracker history one value-returning call is made (every method that returns a snapshot); its result and related reads are checked for shared pointers, must stay equal to a deep copy while 1..20 further operations run, and are then scribbled over (every string, flag, privilege, map insert/delete) after which the whole observable tracker state must still equal the model; non-trivial = the value carries a membership map entry or privileges; distinct by scenario")
	defer finish(t, col)
	rapid.Check(t, func(t *rapid.T) {
		sc := genC14A(t)
		nt, v := runC14A(sc)
		b, _ := json.Marshal(sc)
		col.Case(string(b), nt, "query="+sc.Query.Op)
		if len(sc.Setup) <= 8 {
			col.Sample(map[string]interface{}{"setup": opStrings(sc.Setup), "query": sc.Query.String(), "later": opStrings(sc.Later)})
		}
		if v != nil {
			failRapid(t, "TestC14_Snapshots", v, sc)
		}
	})
}

func opStrings(ops []trOp) []string {
	out := []string{}
	for _, o := range ops {
		out = append(out, o.String())
	}
	return out
}

func TestC14_Snapshots_Replay(t *testing.T) {
	var sc c14Scenario
	loadReplay(t, &sc)
	if _, v := runC14A(&sc); v != nil {
		t.Fatalf("REPRODUCED %s", v.Msg)
	}
}

// ---------------------------------------------------------------------------
// C14 leg B/C: concurrent callers are linearizable (and race-free under -race)
// ---------------------------------------------------------------------------

type c14Conc struct {
	Setup   []trOp   `json:"setup"`
	Threads [][]trOp `json:"threads"`
	Procs   int      `json:"gomaxprocs"`
}

var c14SmallNicks = []string{"me", "a", "b"}
var c14SmallChans = []string{"#x", "#y"}

func genSmallOp(t *rapid.T) trOp {
	n := func() string { return rapid.SampledFrom(c14SmallNicks).Draw(t, "n") }
	c := func() string { return rapid.SampledFrom(c14SmallChans).Draw(t, "c") }
	switch op := rapid.SampledFrom([]string{"NewNick", "GetNick", "ReNick", "DelNick", "NickInfo", "NewChannel", "GetChannel", "DelChannel", "Topic", "ChannelModes", "Me", "IsOn", "Associate", "Associate", "Dissociate", "Wipe", "NickModes", "String"}).Draw(t, "op"); op {
	case "NewNick", "GetNick", "DelNick":
		return trOp{Op: op, A: n()}
	case "ReNick":
		return trOp{Op: op, A: n(), B: rapid.SampledFrom([]string{"a", "b", "c"}).Draw(t, "neu")}
	case "NickInfo":
		return trOp{Op: op, A: n(), B: "i", C: rapid.SampledFrom([]string{"h1", "h2"}).Draw(t, "host"), D: "r"}
	case "NickModes":
		return trOp{Op: op, A: n(), B: rapid.SampledFrom([]string{"+i", "-i", "+w"}).Draw(t, "nm")}
	case "NewChannel", "GetChannel", "DelChannel":
		return trOp{Op: op, A: c()}
	case "Topic":
		return trOp{Op: op, A: c(), B: rapid.SampledFrom([]string{"t1", "t2"}).Draw(t, "topic")}
	case "ChannelModes":
		return trOp{Op: op, A: c(), B: rapid.SampledFrom([]string{"+s", "-s", "+n"}).Draw(t, "cm")}
	case "IsOn", "Associate", "Dissociate":
		return trOp{Op: op, A: c(), B: n()}
	}
	return trOp{Op: rapid.SampledFrom([]string{"Me", "Wipe", "String", "String"}).Draw(t, "nullary")}
}

func genC14Conc(t *rapid.T) *c14Conc {
	sc := &c14Conc{Procs: rapid.SampledFrom([]int{2, 4, 16}).Draw(t, "gomaxprocs")}
	for i, n := 0, rapid.IntRange(0, 10).Draw(t, "nsetup"); i < n; i++ {
		sc.Setup = append(sc.Setup, genSmallOp(t))
	}
	if rapid.IntRange(0, 3).Draw(t, "populated") == 0 {
		// start from a populated tracker: everybody on #x, and "a" alone on #y where the client is not, so
		// that deletions have cascading work to do (and "should not happen" paths to log)
		sc.Setup = []trOp{{Op: "NewNick", A: "a"}, {Op: "NewNick", A: "b"}, {Op: "NewChannel", A: "#x"}, {Op: "NewChannel", A: "#y"},
			{Op: "Associate", A: "#x", B: "me"}, {Op: "Associate", A: "#x", B: "a"}, {Op: "Associate", A: "#x", B: "b"}, {Op: "Associate", A: "#y", B: "a"}}
	}
	g := rapid.IntRange(2, 6).Draw(t, "goroutines")
	for i := 0; i < g; i++ {
		var ops []trOp
		for k, n := 0, rapid.IntRange(3, 12).Draw(t, "nops"); k < n; k++ {
			ops = append(ops, genSmallOp(t))
		}
		sc.Threads = append(sc.Threads, ops)
	}
	return sc
}

type c14State struct{ m *model.Tracker }

var c14Model = porcupine.Model{
	Init: func() interface{} { return c14State{model.NewTracker("me")} },
	Step: func(st, in, out interface{}) (bool, interface{}) {
		s := st.(c14State)
		op := in.(trOp)
		next := s.m.Clone()
		want := applyModel(next, op)
		if d := sameResult(op, out.(trResult), want, next); d != "" {
			return false, st
		}
		return true, c14State{next}
	},
	Equal: func(a, b interface{}) bool { return a.(c14State).m.Canon() == b.(c14State).m.Canon() },
	DescribeOperation: func(in, out interface{}) string {
		o := out.(trResult)
		return fmt.Sprintf("%s -> nick=%s chan=%s privs=%s", in.(trOp), fmtNick(o.Nick), fmtChan(o.Chan), fmtPrivs(o.Privs, o.OK))
	},
}

// c14Logger is an application's logger: it formats what it is given (which reads it) and takes its time.
type c14Logger struct{}

func (c14Logger) out(f string, a []interface{}) {
	_ = fmt.Sprintf(f, a...)
	runtime.Gosched()
}
func (l c14Logger) Debug(f string, a ...interface{}) { l.out(f, a) }
func (l c14Logger) Info(f string, a ...interface{})  { l.out(f, a) }
func (l c14Logger) Warn(f string, a ...interface{})  { l.out(f, a) }
func (l c14Logger) Error(f string, a ...interface{}) { l.out(f, a); time.Sleep(50 * time.Microsecond) } // (errors go somewhere slow)

func runC14Conc(sc *c14Conc) (overlap bool, v *Violation) {
	old := runtime.GOMAXPROCS(sc.Procs)
	defer runtime.GOMAXPROCS(old)
	logging.SetLogger(c14Logger{})
	defer logging.SetLogger(nil)
	st := state.NewTracker("me")
	var clock atomic.Int64
	var history []porcupine.Operation
	for _, o := range sc.Setup {
		c := clock.Add(1)
		r := applyReal(st, o)
		history = append(history, porcupine.Operation{ClientId: 0, Input: o, Call: c, Output: deepCopyResult(r), Return: clock.Add(1)})
	}
	var mu sync.Mutex
	var wg sync.WaitGroup
	start := make(chan struct{})
	var pan atomic.Value
	for g, ops := range sc.Threads {
		g, ops := g, ops
		wg.Add(1)
		go func() {
			defer wg.Done()
			defer func() {
				if r := recover(); r != nil {
					pan.Store(fmt.Sprintf("%v", r))
				}
			}()
			<-start
			for _, o := range ops {
				c := clock.Add(1)
				r := applyReal(st, o)
				ret := clock.Add(1)
				cp := deepCopyResult(r)
				mu.Lock()
				history = append(history, porcupine.Operation{ClientId: g + 1, Input: o, Call: c, Output: cp, Return: ret})
				mu.Unlock()
			}
		}()
	}
	close(start)
	done := make(chan struct{})
	go func() { wg.Wait(); close(done) }()
	select {
	case <-done:
	case <-time.After(stallTimeout()):
		return false, &Violation{Property: "C14", Msg: "concurrent tracker calls did not return (dead-lock)", Detail: goroutineDump()}
	}
	if p := pan.Load(); p != nil {
		return false, violationf("C14", "a concurrent tracker call panicked: %v", p)
	}
	// overlapping operations present?
	for i := range history {
		for j := i + 1; j < len(history); j++ {
			a, b := history[i], history[j]
			if a.ClientId != b.ClientId && a.Call < b.Return && b.Call < a.Return {
				overlap = true
			}
		}
	}
	res := porcupine.CheckOperationsTimeout(c14Model, history, 30*time.Second)
	if res == porcupine.Illegal {
		var desc []string
		for _, h := range history {
			desc = append(desc, fmt.Sprintf("[%d,%d] g%d %s", h.Call, h.Return, h.ClientId, c14Model.DescribeOperation(h.Input, h.Output)))
		}
		return overlap, &Violation{Property: "C14", Msg: fmt.Sprintf("history of %d concurrent tracker calls is not linearizable against the relational model", len(history)), Detail: desc}
	}
	return overlap, nil
}

func TestC14_Concurrent(t *testing.T) {
	col := evid.New("C14", "2..6 goroutines x 3..12 operations over a tiny universe (3 nicks, 2 channels) on one shared tracker after a sequential set-up; every call recorded with invoke/return stamps and its full return value; porcupine checks linearizability against the C12 model (the same binary built with -race runs this leg for data races); non-trivial = history has overlapping operations of different goroutines; distinct by scenario")
	defer finish(t, col)
	rapid.Check(t, func(t *rapid.T) {
		sc := genC14Conc(t)
		ov, v := runC14Conc(sc)
		b, _ := json.Marshal(sc)
		col.Case(string(b), ov, fmt.Sprintf("goroutines=%d", len(sc.Threads)), fmt.Sprintf("gomaxprocs=%d", sc.Procs))
		if len(sc.Threads) == 2 && len(sc.Setup) < 4 {
			col.Sample(map[string]interface{}{"setup": opStrings(sc.Setup), "g1": opStrings(sc.Threads[0]), "g2": opStrings(sc.Threads[1])})
		}
		if v != nil {
			failRapid(t, "TestC14_Concurrent", v, sc)
		}
	})
}

func TestC14_Concurrent_Replay(t *testing.T) {
	var sc c14Conc
	loadReplay(t, &sc)
	n := envInt("VERIF_REPLAY_RUNS", 200)
	for i := 0; i < n; i++ {
		if _, v := runC14Conc(&sc); v != nil {
			b, _ := json.Marshal(v.Detail)
			t.Fatalf("REPRODUCED (run %d of %d): %s\n%s", i+1, n, v.Msg, b)
		}
	}
}

// ---------------------------------------------------------------------------
// big-state leg: snapshot privacy and atomicity of Wipe when the client is on
// a hundred channels or more
// ---------------------------------------------------------------------------

type c14Big struct {
	Chans   int `json:"chans"`
	Readers int `json:"readers"`
	Procs   int `json:"gomaxprocs"`
}

func runC14Big(sc *c14Big) *Violation {
	old := runtime.GOMAXPROCS(sc.Procs)
	defer runtime.GOMAXPROCS(old)
	st := state.NewTracker("me")
	var names []string
	for c := 0; c < sc.Chans; c++ {
		ch := fmt.Sprintf("#big%03d", c)
		names = append(names, ch)
		st.NewChannel(ch)
		st.Associate(ch, "me")
		if c%3 == 0 {
			st.ChannelModes(ch, "+o", "me")
		}
		nk := fmt.Sprintf("u%03d", c%17)
		if st.GetNick(nk) == nil {
			st.NewNick(nk)
		}
		st.Associate(ch, nk)
	}
	// (1) snapshots stay private however many channels they list
	first := st.GetNick("me")
	keep := deepCopyResult(trResult{Nick: first})
	scr := st.Me()
	for ch, p := range scr.Channels {
		flipPrivs(p)
		delete(scr.Channels, ch)
		break
	}
	scr.Channels["#scribble"] = &state.ChanPrivs{Op: true}
	for _, p := range scr.Channels {
		flipPrivs(p)
	}
	if !sameResultValue(trResult{Nick: first}, keep) {
		return violationf("C14", "client on %d channels: editing the value returned by Me() changed the value GetNick(\"me\") had returned earlier", sc.Chans)
	}
	again := st.Me()
	if !sameResultValue(trResult{Nick: again}, keep) {
		return violationf("C14", "client on %d channels: editing the value returned by Me() changed what Me() returns afterwards: %d channels listed, #scribble present: %v", sc.Chans, len(again.Channels), again.Channels["#scribble"] != nil)
	}
	// (2) Wipe is one step: a reader sees everything or nothing, and never everything again
	stop := make(chan struct{})
	bad := make(chan string, sc.Readers)
	var wg sync.WaitGroup
	for r := 0; r < sc.Readers; r++ {
		wg.Add(1)
		go func(r int) {
			defer wg.Done()
			seenEmpty := false
			for {
				select {
				case <-stop:
					return
				default:
				}
				n := len(st.Me().Channels)
				if n != 0 && n != sc.Chans {
					bad <- fmt.Sprintf("Me() listed %d channels during a single Wipe() of %d", n, sc.Chans)
					return
				}
				if n == 0 {
					seenEmpty = true
				} else if seenEmpty {
					bad <- "Me() listed the channels again after it had listed none"
					return
				}
				a := st.GetChannel(names[(r*7)%len(names)])
				b := st.GetChannel(names[len(names)-1-(r*5)%len(names)])
				if a == nil && b != nil {
					bad <- fmt.Sprintf("GetChannel(%s) was gone but GetChannel(%s), asked afterwards, still existed", names[(r*7)%len(names)], names[len(names)-1-(r*5)%len(names)])
					return
				}
			}
		}(r)
	}
	time.Sleep(200 * time.Microsecond)
	st.Wipe()
	time.Sleep(200 * time.Microsecond)
	close(stop)
	wg.Wait()
	select {
	case msg := <-bad:
		return violationf("C14", "client on %d channels, %d readers: %s", sc.Chans, sc.Readers, msg)
	default:
	}
	if n := len(st.Me().Channels); n != 0 {
		return violationf("C14", "after Wipe() Me() still lists %d channels", n)
	}
	return nil
}

func TestC14_Big(t *testing.T) {
	col := evid.New("C14", "big-state leg: the client on 60..260 channels; the value returned by Me() is scribbled over (entries added, deleted, flags flipped) and must leave an earlier GetNick(me) and a later Me() untouched; then one Wipe() runs while 1..4 goroutines read Me() and GetChannel: every reader sees all channels or none, never all again, and never a later-asked channel alive after an earlier-asked one was gone; non-trivial always; distinct by scenario")
	defer finish(t, col)
	rapid.Check(t, func(t *rapid.T) {
		sc := &c14Big{Chans: rapid.SampledFrom([]int{60, 64, 65, 99, 100, 101, 130, 260}).Draw(t, "chans"), Readers: rapid.IntRange(1, 4).Draw(t, "readers"), Procs: rapid.SampledFrom([]int{2, 4, 16}).Draw(t, "gomaxprocs")}
		v := runC14Big(sc)
		b, _ := json.Marshal(sc)
		col.Case(string(b)+fmt.Sprint(rapid.IntRange(0, 1<<30).Draw(t, "repetition")), true, fmt.Sprintf("chans>=100=%v", sc.Chans >= 100))
		col.Sample(sc)
		if v != nil {
			failRapid(t, "TestC14_Big", v, sc)
		}
	})
}

func TestC14_Big_Replay(t *testing.T) {
	var sc c14Big
	loadReplay(t, &sc)
	for i := 0; i < 200; i++ {
		if v := runC14Big(&sc); v != nil {
			t.Fatalf("REPRODUCED (run %d) %s", i+1, v.Msg)
		}
	}
}

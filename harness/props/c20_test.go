package props

import (
	"encoding/json"
	"fmt"
	"strings"
	"testing"
	"time"

	"verifharness/evid"
	"verifharness/ircsim"

	"github.com/fluffle/goirc/client"
	"github.com/fluffle/goirc/logging"
	"pgregory.net/rapid"
)

// ---------------------------------------------------------------------------
// C20: the connection password never reaches the log
// ---------------------------------------------------------------------------

type c20Scenario struct {
	Pass      Q      `json:"pass"`
	CapNeg    bool   `json:"capneg"`
	Tracking  bool   `json:"tracking"`
	ViaTo     bool   `json:"via_connect_to"`
	Failure   string `json:"failure"` // none, dial, write_at_pass, eof_after_pass, refusal
	Reconnect int    `json:"reconnects"`
	Traffic   int    `json:"traffic"`
}

const c20Mask = "PASS **************"

func genC20(t *rapid.T) *c20Scenario {
	nonce := fmt.Sprintf("%06x", rapid.IntRange(0, 0xffffff).Draw(t, "nonce"))
	units := []string{"a", "Z", "0", " ", ":", "%s", "%d", "%v", "%", "*", "**", "!", "~", "\\", "\"", "'", "PASS", "pw", "-", "_", "@", "#"}
	pre := genUnits(t, "pw_pre", units, 0, 8)
	post := genUnits(t, "pw_post", units, 0, 8)
	if rapid.IntRange(0, 9).Draw(t, "pw_long") == 0 {
		post += strings.Repeat("x", rapid.IntRange(20, 40).Draw(t, "pw_pad"))
	}
	sc := &c20Scenario{
		Pass:      Q(pre + nonce + post),
		CapNeg:    rapid.Bool().Draw(t, "capneg"),
		Tracking:  rapid.Bool().Draw(t, "tracking"),
		ViaTo:     rapid.Bool().Draw(t, "via_to"),
		Failure:   rapid.SampledFrom([]string{"none", "none", "dial", "write_at_pass", "eof_after_pass", "refusal"}).Draw(t, "failure"),
		Reconnect: rapid.IntRange(0, 2).Draw(t, "reconnects"),
		Traffic:   rapid.IntRange(0, 6).Draw(t, "traffic"),
	}
	return sc
}

var c20Log = &capLogger{}

// c20Session runs the scenario with the given password ("" = control run)
// and returns the log records plus the number of PASS lines that reached the wire.
func c20Session(sc *c20Scenario, pass string) (recs []logRec, passOnWire int, v *Violation) {
	logging.SetLogger(c20Log)
	defer logging.SetLogger(nil)
	c20Log.take()
	tc := newTestClient(cliOpts{Flood: true, Tracking: sc.Tracking, Server: "irc.example.net", Configure: func(cfg *client.Config) {
		cfg.EnableCapabilityNegotiation = sc.CapNeg
		if !sc.ViaTo {
			cfg.Pass = pass
		}
	}})
	defer tc.shutdown()
	disc := make(chan struct{}, 8)
	tc.C.HandleFunc(client.DISCONNECTED, func(*client.Conn, *client.Line) { disc <- struct{}{} })
	for cycle := 0; cycle <= sc.Reconnect; cycle++ {
		passIdx := 1 // PASS is the first line written ...
		if sc.CapNeg {
			passIdx = 2 // ... or the second, after CAP LS
		}
		switch sc.Failure {
		case "dial":
			tc.S.FailDials(ircsim.ErrDial)
		case "write_at_pass":
			if pass != "" {
				tc.S.Prepare(func(c *ircsim.Conn) { c.FailWriteAt(passIdx) })
			} else {
				tc.S.Prepare(func(c *ircsim.Conn) { c.FailWriteAt(passIdx) })
			}
		}
		var err error
		if sc.ViaTo && pass != "" {
			err = tc.C.ConnectTo("irc.example.net", pass)
		} else if sc.ViaTo {
			err = tc.C.ConnectTo("irc.example.net")
		} else {
			err = tc.C.Connect()
		}
		if sc.Failure == "dial" {
			if err == nil {
				return nil, 0, violationf("C20", "Connect succeeded on a failing dial")
			}
			continue
		}
		if err != nil {
			return nil, 0, violationf("C20", "Connect: %v", err)
		}
		conn := tc.conn()
		switch sc.Failure {
		case "write_at_pass":
			// the connection dies on the injected write error
			select {
			case <-disc:
			case <-time.After(stallTimeout()):
				return nil, 0, violationf("C20", "no DISCONNECTED after a write error")
			}
		case "eof_after_pass":
			conn.WaitWritten(func(w string) bool { return strings.Contains(w, "USER ") }, stallTimeout())
			conn.EOF()
			select {
			case <-disc:
			case <-time.After(stallTimeout()):
				return nil, 0, violationf("C20", "no DISCONNECTED after EOF")
			}
		default:
			if sc.Failure == "refusal" {
				conn.SendLine(":irc.server 464 * :Password incorrect")
				conn.SendLine("ERROR :Closing Link: [Bad Password]")
			} else {
				conn.SendLine(":irc.server 001 me :Welcome me!ident@host")
			}
			for i := 0; i < sc.Traffic; i++ {
				conn.SendLine(fmt.Sprintf(":a!b@c PRIVMSG me :traffic %d", i))
				tc.C.Privmsg("a", fmt.Sprintf("reply %d", i))
			}
			if !tc.syncOut(stallTimeout()) {
				return nil, 0, violationf("C20", "final PING never answered")
			}
			go tc.C.Close()
			select {
			case <-disc:
			case <-time.After(stallTimeout()):
				return nil, 0, violationf("C20", "no DISCONNECTED after Close")
			}
		}
		for _, l := range strings.Split(conn.Written(), "\r\n") {
			if pass != "" && l == "PASS "+pass {
				passOnWire++
			}
		}
		waitCond(stallTimeout(), func() bool { n, _ := goircGoroutines(); return n == 0 })
	}
	return c20Log.take(), passOnWire, nil
}

func recContains(r logRec, needle string) bool {
	if strings.Contains(r.Text, needle) || strings.Contains(r.Format, needle) {
		return true
	}
	for _, a := range r.Args {
		if strings.Contains(fmt.Sprint(a), needle) {
			return true
		}
	}
	return false
}

func runC20(sc *c20Scenario) (admitted bool, v *Violation) {
	pass := string(sc.Pass)
	control, _, v := c20Session(sc, "")
	if v != nil {
		return false, v
	}
	// the password is admitted only if no record of the password-less run (nor the mask) contains it
	if strings.Contains(c20Mask, pass) {
		return false, nil
	}
	for _, r := range control {
		if recContains(r, pass) {
			return false, nil
		}
	}
	recs, onWire, v := c20Session(sc, pass)
	if v != nil {
		return true, v
	}
	masked := 0
	for _, r := range recs {
		if recContains(r, pass) {
			return true, violationf("C20", "log record at level %s contains the password %q: format %q text %q", r.Level, pass, r.Format, tail(r.Text, 200))
		}
		if r.Level == "debug" && strings.HasPrefix(r.Text, "-> PASS") {
			if r.Text != "-> "+c20Mask {
				return true, violationf("C20", "PASS line logged in a form other than the mask: %q", r.Text)
			}
			masked++
		}
	}
	if masked != onWire {
		return true, violationf("C20", "%d PASS lines reached the wire but %d masked records were logged", onWire, masked)
	}
	if sc.Failure == "none" && onWire != sc.Reconnect+1 {
		return true, violationf("C20", "harness: expected %d PASS lines on the wire, saw %d", sc.Reconnect+1, onWire)
	}
	return true, nil
}

func TestC20(t *testing.T) {
	col := evid.New("C20", "passwords of printable bytes (spaces, colons, %-verbs, '*', the word PASS) embedding a 6-hex nonce; capability negotiation / tracking / Config.Pass vs ConnectTo(host, pass); normal sessions with traffic and failing ones (dial error, write error exactly at the PASS line, EOF right after registration, 464 refusal); 0..2 reconnects; every record handed to a capturing logger is searched (format, formatted text, each argument) and compared with a password-less control run; non-trivial = the PASS line was written or attempted; distinct by scenario")
	defer finish(t, col)
	rapid.Check(t, func(t *rapid.T) {
		sc := genC20(t)
		admitted, v := runC20(sc)
		b, _ := json.Marshal(sc)
		cls := []string{"failure=" + sc.Failure, fmt.Sprintf("capneg=%v", sc.CapNeg), fmt.Sprintf("via_connect_to=%v", sc.ViaTo)}
		if !admitted {
			cls = append(cls, "password_not_admitted")
		}
		col.Case(string(b), admitted && sc.Failure != "dial", cls...)
		col.Sample(sc)
		if v != nil {
			failRapid(t, "TestC20", v, sc)
		}
	})
}

func TestC20_Replay(t *testing.T) {
	var sc c20Scenario
	loadReplay(t, &sc)
	if _, v := runC20(&sc); v != nil {
		t.Fatalf("REPRODUCED %s", v.Msg)
	}
}
